"""Virtual inlining of functions the reference tree does not have.

The rules are anchored on the functions of the tree they were written against (rules/spec/known_fns.json,
the union of the in-crate function paths over all analysed feature configurations).  A later refactoring that
*extracts* part of an anchored function into a new private helper would move the anchored shape out of sight.
Instead of failing closed on that, every function that is not in the reference list - a helper that did not
exist - is inlined at its direct call sites before the rules run, so the rules see the pre-extraction shape
(and a helper that hides a violating change is looked into rather than trusted).

 * plain functions/methods are inlined at their call terminators;
 * `async fn` helpers are inlined at the `poll` of their directly awaited future (`helper(..).await`): the
   coroutine body replaces the poll call, its captured arguments are bound at the call that created the future,
   and its result is wrapped in Poll::Ready;
 * jump threading: a path of the helper that ends with a known variant of its result (an `Ok(..)`/`Err(..)`
   aggregate or the residual of a `?`) continues at the arm which the caller's test of that result selects
   (`match`, `?`, the Ready/Pending switch of an await).  Only blocks without side effects (moves, drops,
   discriminant reads, Try::branch) are duplicated for this, so call sites are never multiplied.

Recursive helpers, helpers awaited through a combinator (timeout(..), select!), closures and anything larger
than MAX_BLOCKS are left alone; the rules' own floors then decide (fail closed).  The original bodies stay
available under their own paths.
"""
import copy
import json
import os

VERIF = os.path.dirname(os.path.dirname(os.path.abspath(__file__)))
KNOWN = os.path.join(VERIF, "rules", "spec", "known_fns.json")
MAX_BLOCKS = 600
MAX_ROUNDS = 4
CHAIN_LIMIT = 60


def load_known():
    if not os.path.exists(KNOWN):
        return None
    with open(KNOWN) as f:
        return set(json.load(f)["functions"])


# ------------------------------------------------------------------------------------------------ renaming

def _shift(x, loff, clo_alias, upvars=None):
    """Deep-copy a MIR fragment with locals shifted by loff.  `upvars` (async): {field index -> caller local}
    replaces places rooted at `_1.<field>` of a coroutine body by the local bound to that captured argument."""
    if isinstance(x, dict):
        if "l" in x and "p" in x and isinstance(x["l"], int):
            l, p = x["l"], x["p"]
            if upvars is not None and l == 1:
                q = [e for e in p]
                # (*_1).f or _1.f
                k = 0
                while k < len(q) and q[k] == "deref":
                    k += 1
                if k < len(q) and isinstance(q[k], dict) and "f" in q[k] and q[k].get("i") in upvars:
                    return {"l": upvars[q[k]["i"]], "p": [_shift_proj(e, loff) for e in q[k + 1:]]}
            return {"l": l + loff, "p": [_shift_proj(e, loff) for e in p]}
        if x.get("k") in ("live", "dead") and "l" in x:
            return {"k": x["k"], "l": x["l"] + loff}
        out = {}
        for k, v in x.items():
            if k == "def" and isinstance(v, str) and v in clo_alias:
                out[k] = clo_alias[v]
            else:
                out[k] = _shift(v, loff, clo_alias, upvars)
        return out
    if isinstance(x, list):
        return [_shift(v, loff, clo_alias, upvars) for v in x]
    return x


def _shift_proj(e, loff):
    if isinstance(e, dict) and set(e) == {"index"}:
        return {"index": e["index"] + loff}
    return copy.deepcopy(e)


def _retarget(t, boff):
    for f in ("target", "otherwise", "imaginary", "resume", "drop", "unwind"):
        if isinstance(t.get(f), int):
            t[f] += boff
    if t["k"] == "switch":
        t["targets"] = [[v, b + boff] for v, b in t["targets"]]
    return t


def _succ_fields(t):
    out = []
    for f in ("target", "otherwise", "resume"):
        if isinstance(t.get(f), int):
            out.append(t[f])
    if t["k"] == "switch":
        out.extend(b for _, b in t["targets"])
    return out


def _redirect(t, old, new):
    for f in ("target", "otherwise", "resume"):
        if t.get(f) == old:
            t[f] = new
    if t["k"] == "switch":
        t["targets"] = [[v, (new if b == old else b)] for v, b in t["targets"]]


# ------------------------------------------------------------------------------------------------ return variants

def _ret_variants(callee):
    """variant name of the return place at the end of each block of the callee ('?' = unknown)."""
    blocks = callee["blocks"]
    ret_ty = callee["locals"][0]["ty"]
    resid = "Err" if ret_ty.startswith("std::result::Result<") else "None" if ret_ty.startswith("std::option::Option<") else None
    n = len(blocks)
    st_in = [None] * n
    st_out = [None] * n
    st_in[0] = "?"
    work = [0]
    while work:
        b = work.pop()
        cur = st_in[b]
        for s in blocks[b]["stmts"]:
            if s["k"] == "assign" and s["place"]["l"] == 0:
                rv = s["rv"]
                cur = rv["variant"] if (not s["place"]["p"] and rv.get("agg") == "adt" and isinstance(rv.get("variant"), str)) else "?"
        t = blocks[b]["term"]
        if t["k"] == "call" and t["dest"]["l"] == 0:
            cur = resid if (t["callee"]["name"] == "from_residual" and resid and not t["dest"]["p"]) else "?"
        if st_out[b] == cur:
            continue
        st_out[b] = cur
        for x in _succ_fields(t):
            new = cur if st_in[x] in (None, cur) else "?"
            if st_in[x] != new:
                st_in[x] = new
                work.append(x)
            elif st_out[x] is None:
                work.append(x)
    return st_out


# ------------------------------------------------------------------------------------------------ jump threading

BRANCH_MAP = {"Ok": ("Continue", None), "Some": ("Continue", None), "Err": ("Break", ("Err", None)), "None": ("Break", ("None", None))}


def _thread_chain(caller, start, tracked, known_bools=None):
    """Follow the side-effect-free chain of blocks starting at `start`, with `tracked` = {local: (variant, inner)}
    describing values whose enum variant is known on this path.  Blocks are cloned as long as the chain is linear
    and a switch on the discriminant of a tracked value is replaced by a goto to the arm it selects.  Returns the
    index of the first block of the specialised chain, or None when nothing could be resolved."""
    blocks = caller["blocks"]
    n0 = len(blocks)
    tracked = dict(tracked)
    discr = {}
    refs = {}       # reference local -> tracked local it borrows
    bools = dict(known_bools or {})      # bool local -> known value (is_ok/is_err/is_some/is_none of a tracked value, or a literal)
    first = None
    prev = None
    cur = start
    gained = False
    seen = set()

    def emit(stmts, term):
        nonlocal first, prev
        blocks.append({"cleanup": False, "stmts": stmts, "term": term, "threaded": True})
        idx = len(blocks) - 1
        if first is None:
            first = idx
        if prev is not None:
            pt = blocks[prev]["term"]
            if pt["k"] == "switch" and pt.get("threaded_otherwise"):
                pt["otherwise"] = idx
            elif pt["k"] == "switch":
                pt["targets"] = [[pt["targets"][0][0], idx]]
            else:
                pt["target"] = idx
        prev = idx
        return idx

    for _ in range(CHAIN_LIMIT):
        if cur is None or cur in seen or not (tracked or discr or bools):
            break
        seen.add(cur)
        blk = blocks[cur]
        if blk.get("cleanup"):
            break
        for s in blk["stmts"]:
            if s["k"] != "assign":
                continue
            dst, rv = s["place"], s["rv"]
            val = None
            dk = None
            if "use" in rv:
                src = rv["use"].get("move") or rv["use"].get("copy")
                if src and src["l"] in tracked:
                    vt = tracked[src["l"]]
                    if not src["p"]:
                        val = vt
                    elif len(src["p"]) == 2 and isinstance(src["p"][0], dict) and src["p"][0].get("variant") == vt[0] \
                            and isinstance(src["p"][1], dict) and src["p"][1].get("i") == 0 and vt[1]:
                        val = vt[1]
            elif "discr" in rv and not rv["discr"]["p"] and rv["discr"]["l"] in tracked:
                dk = (tracked[rv["discr"]["l"]][0], rv.get("variants") or {})
            elif rv.get("agg") == "adt" and isinstance(rv.get("variant"), str) and not dst["p"]:
                # a wrapper built on the way (Poll::Ready(x), Ok(x), Some(x)): its variant is known, and so is its payload's
                inner = None
                if len(rv.get("ops") or []) == 1:
                    o = rv["ops"][0].get("move") or rv["ops"][0].get("copy")
                    if o and not o["p"] and o["l"] in tracked:
                        inner = tracked[o["l"]]
                val = (rv["variant"], inner)
            if not dst["p"]:
                refs.pop(dst["l"], None)
                bools.pop(dst["l"], None)
                if "ref" in rv and not rv["ref"]["p"] and rv["ref"]["l"] in tracked:
                    refs[dst["l"]] = rv["ref"]["l"]
                elif "use" in rv and isinstance(rv["use"].get("const"), dict) and rv["use"]["const"].get("ty") == "bool":
                    bools[dst["l"]] = bool(rv["use"]["const"].get("v"))
                elif "use" in rv:
                    src2 = rv["use"].get("move") or rv["use"].get("copy")
                    if src2 and not src2["p"] and src2["l"] in refs:
                        refs[dst["l"]] = refs[src2["l"]]
                    if src2 and not src2["p"] and src2["l"] in bools:
                        bools[dst["l"]] = bools[src2["l"]]
                elif rv.get("un") == "Not" and isinstance(rv.get("a"), dict):
                    src2 = rv["a"].get("move") or rv["a"].get("copy")
                    if src2 and not src2["p"] and src2["l"] in bools:
                        bools[dst["l"]] = not bools[src2["l"]]
            if not dst["p"]:
                tracked.pop(dst["l"], None)
                discr.pop(dst["l"], None)
                if val is not None:
                    tracked[dst["l"]] = val
                if dk is not None:
                    discr[dst["l"]] = dk
        t = blk["term"]
        k = t["k"]
        if k in ("goto", "false_edge", "false_unwind", "drop", "assert"):
            nt = copy.deepcopy(t)
            emit(copy.deepcopy(blk["stmts"]), nt)
            cur = t["target"]
            continue
        if k == "switch":
            on = t["on"].get("move") or t["on"].get("copy")
            if on and not on["p"] and on["l"] in bools and t.get("on_ty") == "bool":
                want = 1 if bools[on["l"]] else 0
                tgt = t["otherwise"]
                for v, b in t["targets"]:
                    if v == want:
                        tgt = b
                blocks.append({"cleanup": False, "stmts": [], "term": {"k": "unreachable"}, "threaded": True})
                dead = len(blocks) - 1
                explicit = [v for v, _ in t["targets"]]
                if want in explicit:
                    nt = {"k": "switch", "on": copy.deepcopy(t["on"]), "on_ty": "bool", "targets": [[want, tgt]], "otherwise": dead, "span": t.get("span"), "threaded_switch": True}
                else:
                    # the wanted value is the `otherwise` arm: keep the explicit value pointing at the dead block
                    nt = {"k": "switch", "on": copy.deepcopy(t["on"]), "on_ty": "bool", "targets": [[explicit[0], dead]], "otherwise": tgt, "span": t.get("span"),
                          "threaded_switch": True, "threaded_otherwise": True}
                emit(copy.deepcopy(blk["stmts"]), nt)
                gained = True
                cur = tgt
                continue
            if on and not on["p"] and on["l"] in discr:
                name, vmap = discr[on["l"]]
                vals = [int(x) for x, nm in vmap.items() if nm == name]
                if len(vals) == 1:
                    tgt = t["otherwise"]
                    for v, b in t["targets"]:
                        if v == vals[0]:
                            tgt = b
                    # keep the test as a one-armed switch (other arm: unreachable) so that the fact "x is Variant"
                    # is still carried by an edge on this specialised path
                    blocks.append({"cleanup": False, "stmts": [], "term": {"k": "unreachable"}, "threaded": True})
                    dead = len(blocks) - 1
                    nt = {"k": "switch", "on": copy.deepcopy(t["on"]), "on_ty": t.get("on_ty"), "targets": [[vals[0], tgt]], "otherwise": dead,
                          "span": t.get("span"), "threaded_switch": True}
                    if first is None:
                        # the unreachable helper block must not become the chain head
                        pass
                    emit(copy.deepcopy(blk["stmts"]), nt)
                    gained = True
                    cur = tgt
                    continue
            break
        if k == "call" and t["callee"]["name"] in ("is_ok", "is_err", "is_some", "is_none") and len(t["args"]) == 1 and isinstance(t.get("target"), int) and not t["dest"]["p"]:
            a = t["args"][0].get("move") or t["args"][0].get("copy")
            src = None
            if a and not a["p"]:
                src = refs.get(a["l"], a["l"] if a["l"] in tracked else None)
            if src is not None and src in tracked:
                var = tracked[src][0]
                truth = {"is_ok": var == "Ok", "is_err": var == "Err", "is_some": var == "Some", "is_none": var == "None"}[t["callee"]["name"]]
                if var in ("Ok", "Err", "Some", "None"):
                    emit(copy.deepcopy(blk["stmts"]), copy.deepcopy(t))
                    bools[t["dest"]["l"]] = truth
                    cur = t["target"]
                    continue
        if k == "call" and t["callee"]["name"] == "branch" and len(t["args"]) == 1 and isinstance(t.get("target"), int) and not t["dest"]["p"]:
            a = t["args"][0].get("move") or t["args"][0].get("copy")
            if a and not a["p"] and a["l"] in tracked and tracked[a["l"]][0] in BRANCH_MAP:
                emit(copy.deepcopy(blk["stmts"]), copy.deepcopy(t))
                tracked[t["dest"]["l"]] = BRANCH_MAP[tracked[a["l"]][0]]
                cur = t["target"]
                continue
        break
    if not gained:
        # drop the useless clones
        del blocks[n0:]
        return None
    # link the end of the specialised chain back into the original code
    if prev is not None and cur is not None:
        pt = blocks[prev]["term"]
        if pt["k"] == "switch" and pt.get("threaded_otherwise"):
            pt["otherwise"] = cur
        elif pt["k"] == "switch":
            pt["targets"] = [[pt["targets"][0][0], cur]]
        elif pt["k"] != "goto" or pt["target"] != cur:
            # last emitted block still points at an original successor: that is `cur`
            pt["target"] = cur
    return first


# ------------------------------------------------------------------------------------------------ inlining

def _append_callee(caller, callee, callee_path, loff, clo_alias, upvars, dest, cont, unwind, span, wrap_ready):
    """Append the callee's blocks; returns (entry index, list of (callee block index -> caller index) return blocks)."""
    boff = len(caller["blocks"])
    ret_blocks = []
    for ci, blk in enumerate(callee["blocks"]):
        nb = {"cleanup": blk["cleanup"], "stmts": _shift(blk["stmts"], loff, clo_alias, upvars), "inlined_from": callee_path}
        t = _shift(blk["term"], loff, clo_alias, upvars)
        if t["k"] == "return":
            if wrap_ready:
                rv = {"agg": "adt", "adt": "std::task::Poll", "variant": "Ready", "vi": 0, "fields": ["0"], "ops": [{"move": {"l": loff, "p": []}}]}
            else:
                rv = {"use": {"move": {"l": loff, "p": []}}}
            nb["stmts"].append({"k": "assign", "place": copy.deepcopy(dest), "rv": rv, "span": span, "inl": "ret"})
            t = {"k": "goto", "target": cont} if cont is not None else {"k": "unreachable"}
            ret_blocks.append(ci)
        elif t["k"] == "resume":
            t = {"k": "goto", "target": unwind} if isinstance(unwind, int) else {"k": "resume"}
        elif t["k"] == "coroutine_drop":
            t = {"k": "coroutine_drop"}
        else:
            t = _retarget(t, boff)
        nb["term"] = t
        caller["blocks"].append(nb)
    return boff, ret_blocks


def _thread_returns(caller, callee, boff, ret_blocks, dest, cont, wrap_ready):
    if cont is None or dest["p"]:
        return
    variants = _ret_variants(callee)
    made = {}
    for rb in ret_blocks:
        for ci, blk in enumerate(callee["blocks"]):
            if rb not in _succ_fields(blk["term"]) or blk["cleanup"]:
                continue
            v = variants[ci]
            inner = (v, None) if v not in (None, "?") else None
            if wrap_ready:
                vt = ("Ready", inner)
            elif inner:
                vt = inner
            else:
                continue
            key = (rb, v if inner else "?")
            if key not in made:
                tt = _thread_chain(caller, cont, {dest["l"]: vt})
                if tt is None:
                    made[key] = None
                else:
                    src = caller["blocks"][rb + boff]
                    caller["blocks"].append({"cleanup": False, "stmts": copy.deepcopy(src["stmts"]), "term": {"k": "goto", "target": tt},
                                             "inlined_from": src.get("inlined_from"), "threaded": True})
                    made[key] = len(caller["blocks"]) - 1
            if made[key] is not None:
                _redirect(caller["blocks"][ci + boff]["term"], rb + boff, made[key])


def inline_call(caller, bb, callee, callee_path, clo_alias):
    """Inline `callee` (raw body dict) at the call terminating block bb of `caller` (raw body dict, mutated)."""
    call = caller["blocks"][bb]["term"]
    loff = len(caller["locals"])
    caller["locals"].extend(copy.deepcopy(callee["locals"]))
    for dbg in callee.get("debug", []):
        caller.setdefault("debug", []).append({"name": dbg["name"], "place": _shift(dbg["place"], loff, clo_alias), "inlined_from": callee_path})
    cont = call["target"]
    unwind = call.get("unwind")
    span = call.get("span")
    stmts = caller["blocks"][bb]["stmts"]
    for i, a in enumerate(call["args"]):
        stmts.append({"k": "assign", "place": {"l": loff + 1 + i, "p": []}, "rv": {"use": copy.deepcopy(a)}, "span": span, "inl": "arg"})
    entry, ret_blocks = _append_callee(caller, callee, callee_path, loff, clo_alias, None, call["dest"], cont, unwind, span, False)
    caller["blocks"][bb]["term"] = {"k": "goto", "target": entry, "inlined_call": callee_path, "span": span}
    # reference arguments: `helper(&mut self.pos)` - inside the inlined body `(*pos)` is the caller's place itself
    subst = {}
    for i, a in enumerate(call["args"]):
        p = a.get("move") or a.get("copy")
        if p is None or p["p"]:
            continue
        tgt = _resolve_ref(caller, p["l"])
        if tgt is not None:
            subst[loff + 1 + i] = tgt
    if subst:
        for blk in caller["blocks"][entry:]:
            blk["stmts"] = _subst_derefs(blk["stmts"], subst)
            blk["term"] = _subst_derefs(blk["term"], subst)
    _thread_returns(caller, callee, entry, ret_blocks, call["dest"], cont, False)


def _resolve_ref(body, local, depth=0):
    """the place a single-assignment reference local points to (through reborrows `&mut *r`), or None"""
    if depth > 6:
        return None
    d = _single_def(body, local)
    if d is None or d[0] != "assign":
        return None
    rv = d[2]["rv"]
    if "use" in rv:
        q = rv["use"].get("move") or rv["use"].get("copy")
        if q is not None and not q["p"]:
            return _resolve_ref(body, q["l"], depth + 1)
        return None
    if "ref" not in rv:
        return None
    pl = rv["ref"]
    if pl["p"] and pl["p"][0] == "deref":
        inner = _resolve_ref(body, pl["l"], depth + 1)
        if inner is not None:
            return {"l": inner["l"], "p": copy.deepcopy(inner["p"]) + copy.deepcopy(pl["p"][1:])}
    return pl


def _subst_derefs(x, subst):
    """replace places `(*param).rest` by `place.rest` for reference parameters bound to a caller place"""
    if isinstance(x, dict):
        if "l" in x and "p" in x and isinstance(x["l"], int):
            if x["l"] in subst and x["p"] and x["p"][0] == "deref":
                base = subst[x["l"]]
                return {"l": base["l"], "p": copy.deepcopy(base["p"]) + [_subst_derefs(e, subst) for e in x["p"][1:]]}
            return {"l": x["l"], "p": [_subst_derefs(e, subst) for e in x["p"]]}
        return {k: _subst_derefs(v, subst) for k, v in x.items()}
    if isinstance(x, list):
        return [_subst_derefs(v, subst) for v in x]
    return x


def _single_def(body, local):
    """the unique statement/terminator defining `local` (whole-local assignment), or None"""
    found = None
    for bi, blk in enumerate(body["blocks"]):
        for s in blk["stmts"]:
            if s["k"] == "assign" and s["place"]["l"] == local and not s["place"]["p"]:
                if found is not None:
                    return None
                found = ("assign", bi, s)
        t = blk["term"]
        if t["k"] == "call" and t["dest"]["l"] == local and not t["dest"]["p"]:
            if found is not None:
                return None
            found = ("call", bi, t)
    return found


def _future_origin(body, op, helper_path):
    """Follow a pinned-future operand of a poll call back to the call `helper_path(args)` that created it."""
    p = op.get("move") or op.get("copy")
    for _ in range(12):
        if p is None:
            return None
        d = _single_def(body, p["l"])
        if d is None:
            return None
        if d[0] == "assign":
            rv = d[2]["rv"]
            if "use" in rv:
                p = rv["use"].get("move") or rv["use"].get("copy")
            elif "ref" in rv:
                p = rv["ref"]
            else:
                return None
            continue
        t = d[2]
        if t["callee"]["path"] == helper_path:
            return d[1], t
        if t["callee"]["name"] in ("new_unchecked", "into_future", "new", "as_mut", "deref_mut") and t["args"]:
            p = t["args"][0].get("move") or t["args"][0].get("copy")
            continue
        return None
    return None


def inline_poll(caller, bb, coro, coro_path, helper_path, clo_alias):
    """Inline the coroutine body of `async fn helper` at the poll call in block bb (a direct `.await`)."""
    poll = caller["blocks"][bb]["term"]
    org = _future_origin(caller, poll["args"][0], helper_path)
    if org is None:
        return False
    cbb, create = org
    loff = len(caller["locals"])
    caller["locals"].extend(copy.deepcopy(coro["locals"]))
    # captured arguments: one fresh local per argument of the creating call, bound where the future is created
    upvars = {}
    for i, a in enumerate(create["args"]):
        ty = (create.get("arg_tys") or [None] * len(create["args"]))[i] or "?"
        caller["locals"].append({"ty": ty, "user": False})
        u = len(caller["locals"]) - 1
        upvars[i] = u
        caller["blocks"][cbb]["stmts"].append({"k": "assign", "place": {"l": u, "p": []}, "rv": {"use": copy.deepcopy(a)},
                                               "span": create.get("span"), "inl": "upvar"})
    for dbg in coro.get("debug", []):
        caller.setdefault("debug", []).append({"name": dbg["name"], "place": _shift(dbg["place"], loff, clo_alias, upvars), "inlined_from": coro_path})
    cont = poll["target"]
    unwind = poll.get("unwind")
    span = poll.get("span")
    stmts = caller["blocks"][bb]["stmts"]
    if len(poll["args"]) > 1:
        stmts.append({"k": "assign", "place": {"l": loff + 2, "p": []}, "rv": {"use": copy.deepcopy(poll["args"][1])}, "span": span, "inl": "arg"})
    create["inlined_future"] = coro_path   # the call that builds the future stays; its body now runs at the poll site
    entry, ret_blocks = _append_callee(caller, coro, coro_path, loff, clo_alias, upvars, poll["dest"], cont, unwind, span, True)
    caller["blocks"][bb]["term"] = {"k": "goto", "target": entry, "inlined_call": coro_path, "span": span}
    _thread_returns(caller, coro, entry, ret_blocks, poll["dest"], cont, True)
    return True


_REF_ENUMS = None


def _is_new_enum(adt):
    """an enum the reference tree does not have (a private status type introduced by the change under analysis): its
    variants are threaded like Result/Option, so `let w = if changed { Wake::Waiters } else { Wake::Nobody }; match w {..}` reads as the branch it is"""
    global _REF_ENUMS
    if _REF_ENUMS is None:
        try:
            with open(os.path.join(VERIF, "rules", "spec", "known_shapes.json")) as f:
                k = json.load(f)
            _REF_ENUMS = set(k["enums"]) if "enums" in k else False
        except Exception:
            _REF_ENUMS = False
    if _REF_ENUMS is False or not adt or adt.startswith(("std::", "core::", "alloc::")):
        return False
    return adt not in _REF_ENUMS


def thread_known_variants(body):
    """Intra-procedural jump threading for a function that differs from the reference tree: where a block gives a
    local a known Result/Option variant (an aggregate, or the residual of a `?`) and a side-effect-free chain leads to
    a test of that local (match, `?`, is_ok/is_err/is_some/is_none), the path continues at the arm the test selects.
    Returns the number of specialised paths."""
    n = 0
    nblocks = len(body["blocks"])
    ret_ty = body["locals"][0]["ty"] if body["locals"] else ""
    for bi in range(nblocks):
        blk = body["blocks"][bi]
        if blk.get("cleanup") or blk.get("threaded"):
            continue
        t = blk["term"]
        known = {}
        kbools = {}
        for s_ in blk["stmts"]:
            if s_["k"] == "assign" and not s_["place"]["p"]:
                rv = s_["rv"]
                known.pop(s_["place"]["l"], None)
                kbools.pop(s_["place"]["l"], None)
                if rv.get("agg") == "adt" and isinstance(rv.get("variant"), str) and (rv.get("adt") in ("std::result::Result", "std::option::Option") or _is_new_enum(rv.get("adt"))):
                    known[s_["place"]["l"]] = (rv["variant"], None)
                c_ = rv.get("use", {}).get("const") if isinstance(rv.get("use"), dict) else None
                if c_ is not None and c_.get("ty") == "bool" and c_.get("v") in (0, 1, True, False):
                    kbools[s_["place"]["l"]] = bool(c_["v"])
                # `_t = Variant; x = move _t` within the block
                m_ = (rv["use"].get("move") or rv["use"].get("copy")) if isinstance(rv.get("use"), dict) else None
                if m_ and not m_["p"] and m_["l"] in known:
                    known[s_["place"]["l"]] = known[m_["l"]]
                if m_ and not m_["p"] and m_["l"] in kbools:
                    kbools[s_["place"]["l"]] = kbools[m_["l"]]
        nxt = None
        if t["k"] in ("goto", "false_edge", "drop") and isinstance(t.get("target"), int):
            nxt = t["target"]
        elif t["k"] == "call" and t["callee"]["name"] == "from_residual" and not t["dest"]["p"] and isinstance(t.get("target"), int):
            ty = body["locals"][t["dest"]["l"]]["ty"]
            v = "Err" if ty.startswith("std::result::Result<") else "None" if ty.startswith("std::option::Option<") else None
            if v:
                known = {t["dest"]["l"]: (v, None)}
                nxt = t["target"]
        known = {l: v for l, v in known.items() if l != 0}   # the return place is tested by the caller, not here
        if t["k"] == "call":
            kbools = {}
        if not (known or kbools) or nxt is None:
            continue
        head = _thread_chain(body, nxt, known, kbools)
        if head is not None:
            _redirect(t, nxt, head)
            n += 1
    # a variant learnt from a test: on the `Err` edge of `match discriminant(x)` x is Err; a later re-test of x (or of a value it is
    # moved into - `r.inspect_err(f)?` once rewritten) on that path is decided
    preds = {}
    for bi in range(nblocks):
        for sx in _succ_fields(body["blocks"][bi]["term"]):
            preds.setdefault(sx, []).append(bi)
    for bi in range(nblocks):
        blk = body["blocks"][bi]
        t = blk["term"]
        if t["k"] != "switch" or blk.get("cleanup") or t.get("threaded_switch"):
            continue
        on = t["on"].get("move") or t["on"].get("copy")
        if not on or on["p"]:
            continue
        dstmt = None
        for s_ in blk["stmts"]:
            if s_["k"] == "assign" and not s_["place"]["p"] and s_["place"]["l"] == on["l"] and "discr" in s_["rv"]:
                dstmt = s_["rv"]
        if dstmt is None or dstmt["discr"]["p"] or not dstmt.get("variants"):
            continue
        x = dstmt["discr"]["l"]
        vmap = {int(k): v for k, v in dstmt["variants"].items()}
        if set(vmap.values()) - {"Ok", "Err", "Some", "None"}:
            continue
        explicit = [v for v, _ in t["targets"]]
        edges = [(vmap.get(v), tb) for v, tb in t["targets"]]
        rest = [nm for k, nm in vmap.items() if k not in explicit]
        if len(rest) == 1:
            edges.append((rest[0], t["otherwise"]))
        for nm, tb in edges:
            if nm is None or len(preds.get(tb, [])) != 1 or body["blocks"][tb].get("threaded"):
                continue
            head = _thread_chain(body, tb, {x: (nm, None)})
            if head is not None:
                _redirect(t, tb, head)
                n += 1
    return n


def _direct_callees(body):
    out = set()
    for blk in body["blocks"]:
        t = blk["term"]
        if t["k"] == "call":
            out.add(t["callee"]["path"])
    return out


def devirtualise_polls(raw, paths):
    """After a generic async helper (`async fn within<F: Future>(.., fut: F)`) is inlined, its `fut.await` is a poll through
    the type parameter.  Where the polled place is, in the caller, the future returned by an in-crate `async fn`, the poll is
    that coroutine's poll.  Returns the number of call sites resolved."""
    bodies = raw["bodies"]
    n = 0
    for p in paths:
        body = bodies.get(p)
        if body is None:
            continue
        for bi, blk in enumerate(body["blocks"]):
            t = blk["term"]
            if t["k"] != "call" or t["callee"].get("kind") != "unresolved" or t["callee"]["name"] != "poll" or not t["args"]:
                continue
            q = t["args"][0].get("move") or t["args"][0].get("copy")
            origin = None
            for _ in range(16):
                if q is None:
                    break
                d = _single_def(body, q["l"])
                if d is None:
                    break
                if d[0] == "assign":
                    rv = d[2]["rv"]
                    if "use" in rv:
                        q = rv["use"].get("move") or rv["use"].get("copy")
                    elif "ref" in rv:
                        q = rv["ref"]
                    else:
                        break
                    continue
                ct = d[2]
                if ct["callee"]["name"] in ("new_unchecked", "into_future", "as_mut", "deref_mut") and ct["args"]:
                    q = ct["args"][0].get("move") or ct["args"][0].get("copy")
                    continue
                origin = ct
                break
            if origin is None:
                continue
            fp = origin["callee"]["path"]
            cp = fp + "::{closure#0}"
            if fp in bodies and bodies[fp].get("is_async") and cp in bodies and bodies[cp]["kind"] == "coroutine":
                c = dict(t["callee"])
                c.update({"path": cp, "kind": "item", "trait": "futures_util::Future", "devirtualised": True})
                t["callee"] = c
                n += 1
    return n


# reference functions whose body is analysed structurally and whose call no rule uses as an event: a changed function that
# newly delegates to one of them may see its body even though rules name it (one line of reason each)
SPLICEABLE = {
    "message::MessageView::<'a>::from_slice": "slice parser: C02/C01 judge its guards, regions and slots from the body; callers only need its Ok payload",
    "message::Message::from_slice": "slice parser, same reason",
}


def inline_new_edges(raw, ref_callees, changed, known, reinlined=None, rule_words=None):
    """A changed reference function that now calls a reference helper it did not call before (delegation to an existing
    function: `Message::from_slice` built on `MessageView::from_slice`) is judged on what that call does: the helper's
    body is spliced in at the new call sites only; the helper itself, and its other callers, are left as they are.
    Returns [(callee, caller)]."""
    bodies = raw["bodies"]
    out = []
    pristine = {}
    for path in sorted(changed):
        body = bodies.get(path)
        if body is None or len(body["blocks"]) > 3000:
            continue
        base = path.split("::{closure")[0]
        if base not in known:
            continue
        had = set(ref_callees.get(base, ()))
        # what a re-inlined reference helper called on the reference tree was already reachable from here
        grow = [h for h in had if h in (reinlined or ())]
        while grow:
            h = grow.pop()
            for c in ref_callees.get(h, ()):
                if c not in had:
                    had.add(c)
                    if c in (reinlined or ()):
                        grow.append(c)
        for rnd in range(2):
            did = False
            for bb in range(len(body["blocks"])):
                t = body["blocks"][bb]["term"]
                if t["k"] != "call" or t.get("inlined_future"):
                    continue
                cp = t["callee"]["path"]
                if cp not in bodies or cp not in known or "{closure" in cp or cp == base or cp in had:
                    continue
                # a function some rule names is an event or a summarised step for that rule (Header::encode = "the header is
                # emitted here"): its call stays a call, unless listed above
                if rule_words is not None and cp.rsplit("::", 1)[-1] in rule_words and cp not in SPLICEABLE:
                    continue
                cb = bodies[cp]
                if cb["kind"] not in ("fn", "method") or cb.get("is_async") or len(cb["blocks"]) > MAX_BLOCKS or cp in _direct_callees(cb):
                    continue
                if base in _direct_callees(cb):
                    continue
                if cp not in pristine:
                    pristine[cp] = copy.deepcopy(cb)
                clo_alias = {}
                for q in list(bodies):
                    if q.startswith(cp + "::{") and q != cp:
                        alias = path + "::{inl#" + cp.rsplit("::", 1)[-1] + "}" + q[len(cp):]
                        clo_alias[q] = alias
                        if alias not in bodies:
                            bodies[alias] = copy.deepcopy(bodies[q])
                inline_call(body, bb, pristine[cp], cp, clo_alias)
                out.append((cp, path))
                did = True
            if not did:
                break
    return out


def apply(raw, known=None):
    """Inline new helper functions in raw['bodies'] (mutating).  Returns a report dict."""
    if known is None:
        known = load_known()
    rep = {"new_functions": [], "inlined": [], "skipped": []}
    if known is None:
        return rep
    bodies = raw["bodies"]
    new = [p for p in bodies if p not in known and "{closure" not in p]
    rep["new_functions"] = sorted(new)
    cand, acand = {}, {}
    for p in new:
        b = bodies[p]
        if b["kind"] not in ("fn", "method"):
            rep["skipped"].append((p, "kind " + b["kind"]))
            continue
        # a new function that encodes a header and writes it is a frame writer in its own right (the rules judge every such
        # function as an emission route): splicing it into a connection loop would only blur it
        core_ = bodies.get(p + "::{closure#0}") if b.get("is_async") else b
        names_ = {(blk["term"]["callee"]["path"] if blk["term"]["callee"]["path"] == "header::Header::encode" else blk["term"]["callee"]["name"])
                  for blk in (core_ or b)["blocks"] if blk["term"]["k"] == "call"}
        if "header::Header::encode" in names_ and "write_all" in names_:
            rep["skipped"].append((p, "frame writer: judged as an emission route of its own"))
            continue
        cp = p + "::{closure#0}"
        if b.get("is_async") and cp in bodies and bodies[cp]["kind"] == "coroutine":
            c = bodies[cp]
            if len(c["blocks"]) > MAX_BLOCKS:
                rep["skipped"].append((p, "too large"))
            elif cp in _direct_callees(c) or p in _direct_callees(c):
                rep["skipped"].append((p, "recursive"))
            else:
                acand[p] = cp
            continue
        if len(b["blocks"]) > MAX_BLOCKS:
            rep["skipped"].append((p, "too large"))
            continue
        if p in _direct_callees(b):
            rep["skipped"].append((p, "recursive"))
            continue
        cand[p] = b
    if not cand and not acand:
        return rep
    pristine = {p: copy.deepcopy(b) for p, b in cand.items()}
    pristine.update({cp: copy.deepcopy(bodies[cp]) for cp in acand.values()})
    coro_of = {cp: p for p, cp in acand.items()}
    for rnd in range(MAX_ROUNDS):
        did = False
        for path, body in list(bodies.items()):
            nblocks = len(body["blocks"])
            if nblocks > 6000:
                continue
            for bb in range(nblocks):
                t = body["blocks"][bb]["term"]
                if t["k"] != "call":
                    continue
                cp = t["callee"]["path"]
                is_sync = cp in cand and cp != path
                is_poll = cp in coro_of and cp != path and not path.startswith(coro_of[cp] + "::")
                if not (is_sync or is_poll):
                    continue
                owner = cp if is_sync else coro_of[cp]
                clo_alias = {}
                for q in list(bodies):
                    if q.startswith(cp + "::{") and q != cp:
                        alias = path + "::{inl#" + owner.rsplit("::", 1)[-1] + "}" + q[len(cp):]
                        clo_alias[q] = alias
                        if alias not in bodies:
                            bodies[alias] = bodies[q]
                if is_sync:
                    inline_call(body, bb, pristine[cp], cp, clo_alias)
                    rep["inlined"].append((cp, path))
                    did = True
                else:
                    if inline_poll(body, bb, pristine[cp], cp, owner, clo_alias):
                        rep["inlined"].append((cp, path))
                        did = True
                    else:
                        rep["skipped"].append((owner, "awaited through a combinator in " + path))
        if not did:
            break
    # a helper whose every call site was inlined is now represented inside its callers: drop its own body so that
    # crate-wide "who may call X" rules judge the code once, where it runs
    rep["removed"] = []
    for owner in list(cand) + list(acand):
        fam = [q for q in bodies if q == owner or q.startswith(owner + "::{")]
        still = False
        for path, body in bodies.items():
            if path in fam:
                continue
            for blk in body["blocks"]:
                t = blk["term"]
                if t["k"] == "call":
                    cp = t["callee"]["path"]
                    if cp == owner and not t.get("inlined_future"):
                        still = True
                    if cp in fam and cp != owner and not path.startswith(owner):
                        still = True
                    for a in t["args"]:
                        c = a.get("const")
                        if c and "fn" in c and c["fn"].get("path") == owner:
                            still = True
                for st_ in blk["stmts"]:
                    if st_["k"] == "assign":
                        txt = json.dumps(st_["rv"])
                        if '"fn"' in txt and owner in txt:
                            still = True
        if not still and any(x[0] in (owner, acand.get(owner)) for x in rep["inlined"]):
            for q in fam:
                # closure bodies stay reachable through their alias under the caller
                bodies.pop(q, None)
            rep["removed"].append(owner)
    return rep
