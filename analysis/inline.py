"""Virtual inlining of functions the reference tree does not have.

The rules are anchored on the functions of the tree they were written against (rules/spec/known_fns.json,
the union of the in-crate function paths over all analysed feature configurations).  A later refactoring that
*extracts* part of an anchored function into a new private helper would move the anchored shape out of sight.
Instead of failing closed on that, every function that is not in the reference list - a helper that did not
exist - is inlined at its direct call sites before the rules run, so the rules see the pre-extraction shape
(and a helper that hides a violating change is looked into rather than trusted).

Only MIR of plain (non-coroutine, non-closure, non-recursive) functions is inlined; `async fn` helpers are
inlined at the `poll` of their awaited future (see _inline_async).  Anything else new is left alone and the
rules' own floors decide.  The original bodies stay available under their own paths.
"""
import copy
import json
import os

VERIF = os.path.dirname(os.path.dirname(os.path.abspath(__file__)))
KNOWN = os.path.join(VERIF, "rules", "spec", "known_fns.json")
MAX_BLOCKS = 400
MAX_ROUNDS = 4


def load_known():
    if not os.path.exists(KNOWN):
        return None
    with open(KNOWN) as f:
        return set(json.load(f)["functions"])


def _shift(x, loff, boff, clo_alias):
    """Deep-copy a MIR fragment with locals shifted by loff (block numbers are handled by the caller)."""
    if isinstance(x, dict):
        if "l" in x and "p" in x and isinstance(x["l"], int):
            return {"l": x["l"] + loff,
                    "p": [({"index": e["index"] + loff} if isinstance(e, dict) and set(e) == {"index"} else copy.deepcopy(e)) for e in x["p"]]}
        if x.get("k") in ("live", "dead") and "l" in x:
            return {"k": x["k"], "l": x["l"] + loff}
        out = {}
        for k, v in x.items():
            if k == "def" and isinstance(v, str) and v in clo_alias:
                out[k] = clo_alias[v]
            else:
                out[k] = _shift(v, loff, boff, clo_alias)
        return out
    if isinstance(x, list):
        return [_shift(v, loff, boff, clo_alias) for v in x]
    return x


def _retarget(t, boff, ret_to, unwind_to):
    k = t["k"]
    for f in ("target", "otherwise", "imaginary", "resume", "drop"):
        if isinstance(t.get(f), int):
            t[f] += boff
    if isinstance(t.get("unwind"), int):
        t["unwind"] += boff
    if k == "switch":
        t["targets"] = [[v, b + boff] for v, b in t["targets"]]
    return t


def inline_call(caller, bb, callee, callee_path, clo_alias):
    """Inline `callee` (raw body dict) at the call terminating block bb of `caller` (raw body dict, mutated)."""
    call = caller["blocks"][bb]["term"]
    loff = len(caller["locals"])
    boff = len(caller["blocks"])
    caller["locals"].extend(copy.deepcopy(callee["locals"]))
    for dbg in callee.get("debug", []):
        caller.setdefault("debug", []).append({"name": dbg["name"], "place": _shift(dbg["place"], loff, boff, clo_alias), "inlined_from": callee_path})
    cont = call["target"]
    unwind = call.get("unwind")
    span = call.get("span")
    # argument moves
    stmts = caller["blocks"][bb]["stmts"]
    for i, a in enumerate(call["args"]):
        stmts.append({"k": "assign", "place": {"l": loff + 1 + i, "p": []}, "rv": {"use": copy.deepcopy(a)}, "span": span, "inl": "arg"})
    caller["blocks"][bb]["term"] = {"k": "goto", "target": boff, "inlined_call": callee_path, "span": span}
    ret_blocks = []
    for ci, blk in enumerate(callee["blocks"]):
        nb = {"cleanup": blk["cleanup"], "stmts": _shift(blk["stmts"], loff, boff, clo_alias), "inlined_from": callee_path}
        t = _shift(blk["term"], loff, boff, clo_alias)
        if t["k"] == "return":
            nb["stmts"].append({"k": "assign", "place": copy.deepcopy(call["dest"]), "rv": {"use": {"move": {"l": loff, "p": []}}}, "span": span, "inl": "ret"})
            t = {"k": "goto", "target": cont} if cont is not None else {"k": "unreachable"}
            ret_blocks.append(ci)
        elif t["k"] == "resume":
            t = {"k": "goto", "target": unwind} if isinstance(unwind, int) else {"k": "resume"}
        else:
            t = _retarget(t, boff, cont, unwind)
        nb["term"] = t
        caller["blocks"].append(nb)
    # jump threading: a path of the helper that ends with a known variant of its result (Ok(..) built, or the
    # residual of a `?`) continues at the arm the caller's test of that result selects, not at the test itself
    if cont is not None and not call["dest"]["p"]:
        variants = _ret_variants(callee)
        made = {}
        for rb in ret_blocks:
            for ci, blk in enumerate(callee["blocks"]):
                if rb not in _succ_fields(blk["term"]) or blk["cleanup"]:
                    continue
                v = variants[ci]
                if v in (None, "?"):
                    continue
                if (rb, v) not in made:
                    tt = _thread_target(caller, cont, call["dest"], v)
                    if tt is None:
                        made[(rb, v)] = None
                    else:
                        src = caller["blocks"][rb + boff]
                        caller["blocks"].append({"cleanup": False, "stmts": copy.deepcopy(src["stmts"]), "term": {"k": "goto", "target": tt},
                                                 "inlined_from": callee_path, "threaded": v})
                        made[(rb, v)] = len(caller["blocks"]) - 1
                if made[(rb, v)] is not None:
                    _redirect(caller["blocks"][ci + boff]["term"], rb + boff, made[(rb, v)])


def _succ_fields(t):
    out = []
    for f in ("target", "otherwise", "resume"):
        if isinstance(t.get(f), int):
            out.append(t[f])
    if t["k"] == "switch":
        out.extend(b for _, b in t["targets"])
    return out


def _redirect(t, old, new):
    for f in ("target", "otherwise", "resume"):
        if t.get(f) == old:
            t[f] = new
    if t["k"] == "switch":
        t["targets"] = [[v, (new if b == old else b)] for v, b in t["targets"]]


def _ret_variants(callee):
    """variant name of the return place at the end of each block of the callee ('?' = unknown)."""
    blocks = callee["blocks"]
    ret_ty = callee["locals"][0]["ty"]
    resid = "Err" if ret_ty.startswith("std::result::Result<") else "None" if ret_ty.startswith("std::option::Option<") else None
    n = len(blocks)
    st_in = [None] * n
    st_out = [None] * n
    st_in[0] = "?"
    work = [0]
    while work:
        b = work.pop()
        cur = st_in[b]
        for s in blocks[b]["stmts"]:
            if s["k"] == "assign" and s["place"]["l"] == 0:
                rv = s["rv"]
                cur = rv["variant"] if (not s["place"]["p"] and rv.get("agg") == "adt" and isinstance(rv.get("variant"), str)) else "?"
        t = blocks[b]["term"]
        if t["k"] == "call" and t["dest"]["l"] == 0:
            cur = resid if (t["callee"]["name"] == "from_residual" and resid and not t["dest"]["p"]) else "?"
        if st_out[b] == cur:
            continue
        st_out[b] = cur
        for x in _succ_fields(t):
            new = cur if st_in[x] in (None, cur) else "?"
            if st_in[x] != new:
                st_in[x] = new
                work.append(x)
            elif st_out[x] is None:
                work.append(x)
    return st_out


def _clone_stmts(stmts):
    return copy.deepcopy(stmts)


def _thread_target(caller, cont, dest, variant):
    """A block that does what `cont` does for a callee result of the given variant, skipping the test of the
    result's discriminant (jump threading), or None when `cont` is not a recognisable test of `dest`."""
    if cont is None or variant in (None, "?"):
        return None
    blk = caller["blocks"][cont]
    t = blk["term"]

    def switch_target(block, place, var):
        d_local = None
        vmap = None
        for s in block["stmts"]:
            if s["k"] == "assign" and "discr" in s["rv"] and s["rv"]["discr"] == place and not s["place"]["p"]:
                d_local, vmap = s["place"]["l"], s["rv"].get("variants") or {}
        tt = block["term"]
        if d_local is None or tt["k"] != "switch":
            return None
        on = tt["on"].get("move") or tt["on"].get("copy")
        if not on or on["l"] != d_local or on["p"]:
            return None
        vals = [int(k) for k, nm in vmap.items() if nm == var]
        if len(vals) != 1:
            return None
        for v, b in tt["targets"]:
            if v == vals[0]:
                return b
        return tt["otherwise"]

    tgt = switch_target(blk, dest, variant)
    if tgt is not None:
        caller["blocks"].append({"cleanup": False, "stmts": _clone_stmts(blk["stmts"]), "term": {"k": "goto", "target": tgt}, "threaded": variant})
        return len(caller["blocks"]) - 1
    # `?` on the result:  _t = move dest; _c = Try::branch(_t) -> bbN;  bbN: switch discr(_c)
    if t["k"] == "call" and t["callee"]["name"] == "branch" and isinstance(t.get("target"), int) and len(t["args"]) == 1:
        a = t["args"][0].get("move") or t["args"][0].get("copy")
        src = None
        if a and not a["p"]:
            if a == dest:
                src = dest
            for s in blk["stmts"]:
                if s["k"] == "assign" and s["place"] == a and "use" in s["rv"]:
                    u = s["rv"]["use"].get("move") or s["rv"]["use"].get("copy")
                    if u == dest:
                        src = dest
        if src is None:
            return None
        cf = {"Ok": "Continue", "Some": "Continue", "Err": "Break", "None": "Break"}.get(variant)
        nxt = caller["blocks"][t["target"]]
        tgt2 = switch_target(nxt, t["dest"], cf) if cf else None
        if tgt2 is None:
            return None
        caller["blocks"].append({"cleanup": False, "stmts": _clone_stmts(nxt["stmts"]), "term": {"k": "goto", "target": tgt2}, "threaded": variant})
        a2 = len(caller["blocks"]) - 1
        nt = copy.deepcopy(t)
        nt["target"] = a2
        caller["blocks"].append({"cleanup": False, "stmts": _clone_stmts(blk["stmts"]), "term": nt, "threaded": variant})
        return len(caller["blocks"]) - 1
    return None


def _direct_callees(body):
    out = set()
    for blk in body["blocks"]:
        t = blk["term"]
        if t["k"] == "call":
            out.add(t["callee"]["path"])
    return out


def apply(raw, known=None):
    """Inline new helper functions in raw['bodies'] (mutating).  Returns a report dict."""
    if known is None:
        known = load_known()
    rep = {"new_functions": [], "inlined": [], "skipped": []}
    if known is None:
        return rep
    bodies = raw["bodies"]
    new = [p for p, b in bodies.items() if p not in known and "{closure" not in p and "{impl" not in p.rsplit("::", 1)[-1]]
    new = [p for p in new if not any(seg.startswith("tests") or seg == "test" for seg in p.split("::"))]
    rep["new_functions"] = sorted(new)
    cand = {}
    for p in new:
        b = bodies[p]
        if b["kind"] not in ("fn", "method"):
            rep["skipped"].append((p, "kind " + b["kind"]))
            continue
        if b.get("is_async"):
            rep["skipped"].append((p, "async fn (not inlined)"))
            continue
        if len(b["blocks"]) > MAX_BLOCKS:
            rep["skipped"].append((p, "too large"))
            continue
        if p in _direct_callees(b):
            rep["skipped"].append((p, "recursive"))
            continue
        cand[p] = b
    if not cand:
        return rep
    # pristine copies: inline the original helper body (helpers calling helpers are resolved by rounds)
    pristine = {p: copy.deepcopy(b) for p, b in cand.items()}
    for rnd in range(MAX_ROUNDS):
        did = False
        for path, body in list(bodies.items()):
            if path in cand and rnd == 0:
                pass
            nblocks = len(body["blocks"])
            for bb in range(nblocks):
                t = body["blocks"][bb]["term"]
                if t["k"] != "call":
                    continue
                cp = t["callee"]["path"]
                if cp not in cand or cp == path:
                    continue
                if len(body["blocks"]) > 4000:
                    continue
                # closures of the helper become visible as children of the caller
                clo_alias = {}
                for q in list(bodies):
                    if q.startswith(cp + "::{"):
                        alias = path + "::{inl#" + cp.rsplit("::", 1)[-1] + "}" + q[len(cp):]
                        clo_alias[q] = alias
                        if alias not in bodies:
                            bodies[alias] = bodies[q]
                inline_call(body, bb, pristine[cp], cp, clo_alias)
                rep["inlined"].append((cp, path))
                did = True
        if not did:
            break
    return rep
