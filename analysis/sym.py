"""Symbolic value expressions over MIR (A5/A7 helper).

An expression is a tuple:
  ('arg', n, name) | ('local', l, name) | ('const', value_or_name) | ('str', s) | ('fn', path)
  ('field', base, name) | ('variant', base, Variant) | ('index', base)
  ('call', path, (args...), bb) | ('bin', op, a, b) | ('un', op, a) | ('cast', ty, a)
  ('agg', adt_or_kind, variant, ((field, expr)...)) | ('discr', base) | ('unknown', text)
Single-definition temporaries are expanded; arguments and multiply-defined locals are roots.
Deref, borrows, clone/deref/as_ref-style calls are transparent.
"""
from .mir import op_place, callee_matches
from .flow import TRANSPARENT

SYM_TRANSPARENT = tuple(t for t in TRANSPARENT if not t.endswith("Try::branch") and not t.endswith("from_residual")
                        and not t.endswith("to_vec") and not t.endswith("to_owned") and not t.endswith("Arc::<T>::new")
                        and not t.endswith("Box::<T>::new") and not t.endswith("Into::into") and not t.endswith("From::from"))


class Sym:
    def __init__(self, body, casts=False, max_depth=40, extra_transparent=()):
        self.body = body
        self.casts = casts
        self.max_depth = max_depth
        self.transparent = SYM_TRANSPARENT + tuple(extra_transparent)
        self._memo = {}

    def op(self, op, depth=0):
        p = op_place(op)
        if p is not None:
            return self.place(p, depth)
        c = op.get("const")
        if c is not None:
            if "fn" in c:
                return ("fn", c["fn"]["path"])
            if "v" in c:
                return ("const", c["v"], c.get("name"))
            if "str" in c:
                return ("str", c["str"])
            return ("const", c.get("name") or c["ty"], c.get("name"))
        return ("unknown", "operand")

    def place(self, p, depth=0):
        e = self.local(p["l"], depth)
        for el in p["p"]:
            if el == "deref":
                continue
            if "f" in el:
                e = self._field(e, el["f"])
            elif "variant" in el:
                e = ("variant", e, el["variant"])
            elif "index" in el:
                e = ("index", e)
            elif "cindex" in el:
                # slice pattern element `[first, ..]` / `[.., last]`
                e = ("index", e, ("-%d" % el["cindex"]) if el.get("from_end") else str(el["cindex"]))
            elif "subslice" in el:
                # slice pattern rest `[_, rest @ ..]`
                a, z = el["subslice"]
                e = ("index", e, "%d..%s" % (a, ("-%d" % z if z else "") if el.get("from_end") else str(z)))
            else:
                e = ("index", e)
        return e

    def _field(self, e, name):
        # projection through a freshly built aggregate
        if e[0] == "agg":
            for n, x in e[3]:
                if n == name:
                    return x
        if e[0] == "variant" and e[1][0] == "agg" and e[1][2] == e[2]:
            for n, x in e[1][3]:
                if n == name:
                    return x
        # `?` on a value that is visibly Ok(x)/Some(x): the Continue payload is x
        if (name == "0" and e[0] == "variant" and e[2] == "Continue" and e[1][0] == "call" and e[1][1].endswith("::Try>::branch") and len(e[1][2]) == 1
                and e[1][2][0][0] == "agg" and e[1][2][0][2] in ("Ok", "Some")):
            for n, x in e[1][2][0][3]:
                if n == "0":
                    return x
        return ("field", e, name)

    def local(self, l, depth=0):
        if l in self._memo:
            return self._memo[l]
        b = self.body
        name = b.debug_name(l)
        if depth > self.max_depth:
            return ("local", l, name)
        defs = b.defs_of(l)
        # partial writes make a local a root
        if len(defs) != 1 or self._has_partial_writes(l):
            if 1 <= l <= b.argc and len(defs) == 1:
                r = ("arg", l, name)
            else:
                r = ("local", l, name)
            self._memo[l] = r
            return r
        d = defs[0]
        self._memo[l] = ("local", l, name)  # cycle guard
        if d[0] == "arg":
            r = ("arg", l, name)
        elif d[0] == "assign":
            r = self.rvalue(d[3], depth + 1)
        else:
            t = d[2]
            c = t["callee"]
            if t["args"] and callee_matches(c, *self.transparent):
                r = self.op(t["args"][0], depth + 1)
            else:
                r = ("call", c["path"], tuple(self.op(a, depth + 1) for a in t["args"]), d[1])
        self._memo[l] = r
        return r

    def switch_on(self, bb):
        """the value a switch terminator tests, with compiler temporaries resolved by reaching definitions at the switch"""
        c = self.__dict__.setdefault("_switch_on", {})
        if bb not in c:
            c[bb] = SymAt(self, bb, len(self.body.blocks[bb]["stmts"]), named=False).op(self.body.term(bb)["on"])
        return c[bb]

    def at(self, bb, idx=None):
        """A view that resolves multiply-defined locals by reaching definitions at program point (bb, idx): when exactly one
        definition reaches the point, the local stands for that definition (evaluated at its own point)."""
        return SymAt(self, bb, len(self.body.blocks[bb]["stmts"]) if idx is None else idx)

    def _has_partial_writes(self, l):
        pw = getattr(self, "_pw", None)
        if pw is None:
            pw = set()
            for bl in self.body.blocks:
                for s in bl["stmts"]:
                    if s["k"] == "assign" and s["place"]["p"]:
                        # writes through a deref of a reference local do not redefine the local itself
                        if s["place"]["p"][0] != "deref":
                            pw.add(s["place"]["l"])
                t = bl["term"]
                if t["k"] == "call" and t["dest"]["p"] and t["dest"]["p"][0] != "deref":
                    pw.add(t["dest"]["l"])
            self._pw = pw
        return l in pw

    def rvalue(self, rv, depth=0):
        if "use" in rv:
            return self.op(rv["use"], depth)
        if "ref" in rv:
            return self.place(rv["ref"], depth)
        if "rawptr" in rv:
            return self.place(rv["rawptr"], depth)
        if "cast" in rv:
            inner = self.op(rv["cast"], depth)
            if self.casts and rv["kind"].startswith("IntToInt"):
                return ("cast", rv["ty"], inner)
            return inner
        if "bin" in rv:
            return ("bin", rv["bin"], self.op(rv["a"], depth), self.op(rv["b"], depth))
        if "un" in rv:
            return ("un", rv["un"], self.op(rv["a"], depth))
        if "discr" in rv:
            return ("discr", self.place(rv["discr"], depth))
        if "agg" in rv:
            k = rv["agg"]
            if k == "adt":
                return ("agg", rv["adt"], rv["variant"], tuple((n, self.op(o, depth)) for n, o in zip(rv["fields"], rv["ops"])))
            if k in ("closure", "coroutine", "coroutine_closure"):
                return ("agg", k + ":" + rv["def"], None, tuple((n, self.op(o, depth)) for n, o in zip(rv["fields"], rv["ops"])))
            return ("agg", k, None, tuple((str(i), self.op(o, depth)) for i, o in enumerate(rv["ops"])))
        if "repeat" in rv:
            return ("agg", "repeat", None, (("0", self.op(rv["repeat"], depth)), ("n", ("const", rv["n"], None))))
        return ("unknown", str(rv)[:80])


def render(e):
    k = e[0]
    if k == "arg":
        return e[2] or "arg%d" % e[1]
    if k == "local":
        return e[2] or "_%d" % e[1]
    if k == "const":
        if len(e) > 2 and e[2]:
            return e[2].rsplit("::", 1)[-1]
        return str(e[1])
    if k == "str":
        return repr(e[1])
    if k == "fn":
        return "fn:" + e[1]
    if k == "field":
        return render(e[1]) + "." + e[2]
    if k == "variant":
        return "(%s as %s)" % (render(e[1]), e[2])
    if k == "index":
        return render(e[1]) + "[%s]" % (e[2] if len(e) > 2 else "")
    if k == "call":
        return "%s(%s)" % (short(e[1]), ", ".join(render(a) for a in e[2]))
    if k == "bin":
        return "(%s %s %s)" % (render(e[2]), e[1], render(e[3]))
    if k == "un":
        return "%s(%s)" % (e[1], render(e[2]))
    if k == "cast":
        return "(%s as %s)" % (render(e[2]), e[1])
    if k == "discr":
        return "discr(%s)" % render(e[1])
    if k == "agg":
        nm = e[1].rsplit("::", 1)[-1] + ("::" + e[2] if e[2] and e[2] != e[1].rsplit("::", 1)[-1] else "")
        return "%s{%s}" % (nm, ", ".join("%s: %s" % (n, render(x)) for n, x in e[3]))
    return "?" + str(e[1])


def short(path):
    # keep the last two segments, drop generic noise
    p = path.replace("::<T>", "").replace("::<T, A>", "").replace("::<T, E>", "")
    segs = p.split("::")
    return "::".join(segs[-2:]) if len(segs) > 1 else p


def walk(e):
    yield e
    k = e[0]
    if k in ("field", "variant", "index", "discr"):
        yield from walk(e[1])
    elif k == "call":
        for a in e[2]:
            yield from walk(a)
    elif k == "bin":
        yield from walk(e[2])
        yield from walk(e[3])
    elif k in ("un", "cast"):
        yield from walk(e[2])
    elif k == "agg":
        for _, x in e[3]:
            yield from walk(x)


def is_field(e, name, base_pred=None):
    return e[0] == "field" and e[2] == name and (base_pred is None or base_pred(e[1]))


def strip_variant(e):
    """(x as Some).0 -> x   (value inside an Option/Result)"""
    if e[0] == "field" and e[2] == "0" and e[1][0] == "variant":
        return e[1][1]
    return e


def is_call(e, *pats):
    if e[0] != "call":
        return False
    for p in pats:
        if e[1] == p or e[1].endswith("::" + p):
            return True
    return False


def const_val(e):
    if e[0] == "const" and isinstance(e[1], int):
        return e[1]
    return None


def eval_const(e):
    """Fold an expression made of integer constants (Add/Sub, checked-tuple .0, casts); None if not constant."""
    k = e[0]
    if k == "const":
        return e[1] if isinstance(e[1], int) else None
    if k == "cast":
        return eval_const(e[2])
    if k == "field" and e[2] == "0" and e[1][0] == "bin" and e[1][1].endswith("WithOverflow"):
        return eval_const(("bin", e[1][1][:-12], e[1][2], e[1][3]))
    if k == "bin":
        a, b = eval_const(e[2]), eval_const(e[3])
        if a is None or b is None:
            return None
        if e[1] in ("Add", "AddWithOverflow"):
            return a + b
        if e[1] in ("Sub", "SubWithOverflow"):
            return a - b
        if e[1] in ("Mul", "MulWithOverflow"):
            return a * b
    return None


class SymAt(Sym):
    def __init__(self, base, bb, idx, choice=None, named=True):
        Sym.__init__(self, base.body, base.casts, base.max_depth)
        self.named = named                   # False: source-level variables stay symbolic roots, only compiler temporaries are resolved
        self.transparent = base.transparent
        self.ctx = (bb, idx)
        self.choice = dict(choice or {})     # multiply-reaching local -> the definition point assumed for it
        self.ambiguous = {}                  # multiply-reaching locals met while evaluating -> their definition points
        self._memo_at = {}

    def local(self, l, depth=0):
        b = self.body
        key = (l, self.ctx)
        if key in self._memo_at:
            return self._memo_at[key]
        name = b.debug_name(l)
        if depth > self.max_depth or self._has_partial_writes(l):
            return ("local", l, name)
        if not self.named and name is not None and len(b.defs_of(l)) != 1 and not getattr(b, "changed", False):
            return Sym.local(self, l, depth)
        pts = b.reaching_at(l, self.ctx[0], self.ctx[1])
        if len(pts) != 1:
            if l in self.choice and self.choice[l] in pts:
                pts = [self.choice[l]]
            else:
                if len(pts) > 1:
                    self.ambiguous.setdefault(l, sorted(pts))
                r = ("arg", l, name) if (1 <= l <= b.argc and len(b.defs_of(l)) == 1) else ("local", l, name)
                self._memo_at[key] = r
                return r
        pt = sorted(pts)[0]
        if pt[0] == -1:
            r = ("arg", l, name)
            self._memo_at[key] = r
            return r
        self._memo_at[key] = ("local", l, name)     # cycle guard
        saved = self.ctx
        self.ctx = pt
        try:
            blk = b.blocks[pt[0]]
            if pt[1] < len(blk["stmts"]):
                r = self.rvalue(blk["stmts"][pt[1]]["rv"], depth + 1)
            else:
                t = blk["term"]
                c = t["callee"]
                if t["args"] and callee_matches(c, *self.transparent):
                    r = self.op(t["args"][0], depth + 1)
                else:
                    r = ("call", c["path"], tuple(self.op(a, depth + 1) for a in t["args"]), pt[0])
        finally:
            self.ctx = saved
        self._memo_at[key] = r
        return r


def switch_alternatives(sym, bb, limit=12):
    """The values a switch may be testing, one per combination of reaching definitions of the multiply-defined locals its
    operand depends on (a test placed after the join of several specialised paths); [context-free value] when unambiguous."""
    cache = sym.__dict__.setdefault("_switch_alts", {})
    if bb not in cache:
        t = sym.body.term(bb)
        rows = split_rows(sym, bb, len(sym.body.blocks[bb]["stmts"]), {"use": t["on"]}, limit)
        cache[bb] = [v for _, v in rows] if rows else [sym.op(t["on"])]
    return cache[bb]


def split_rows(sym, bb, idx, rv, limit=24):
    """Evaluate rvalue `rv` at (bb, idx) once per combination of reaching definitions of the multiply-defined locals it
    depends on: [(choice {local: definition point}, value)].  A choice's definition lies on the path taken, so whatever
    dominates that definition holds on the row's path as well."""
    return split_eval(sym, bb, idx, lambda v: v.rvalue(rv), limit)


def _kill_points(body, locals_):
    ks = set()
    for l in locals_:
        for d in body.defs_of(l):
            if d[0] == "assign":
                ks.add((d[1], d[2]))
            elif d[0] == "call":
                ks.add((d[1], len(body.blocks[d[1]]["stmts"])))
    return ks


def _reach_nokill(body, src, dst, kills):
    """can control go from just after point `src` to point `dst` (exclusive) without crossing one of `kills`?
    points are (bb, idx), idx == len(stmts) for the terminator; src (-1, a) = function entry"""
    live = body.live_blocks()
    if src[0] < 0:
        start = [(0, 0)]
    else:
        n = len(body.blocks[src[0]]["stmts"])
        if src[1] >= n:
            t = body.term(src[0])
            start = [(t["target"], 0)] if t.get("k") == "call" and isinstance(t.get("target"), int) else [(x, 0) for x in body.succs(src[0])]
        else:
            start = [(src[0], src[1] + 1)]
    seen = set()
    work = list(start)
    while work:
        bb, i = work.pop()
        if bb not in live or (bb, i) in seen:
            continue
        seen.add((bb, i))
        n = len(body.blocks[bb]["stmts"])
        blocked = False
        for k in range(i, n + 1):
            if (bb, k) == dst:
                return True
            if (bb, k) in kills:
                blocked = True
                break
        if blocked:
            continue
        for sc in body.succs(bb):
            work.append((sc, 0))
    return False


def choice_feasible(body, choice, use):
    """is there one execution on which every chosen definition is the one reaching `use`?  (definitions picked independently per
    local can belong to different paths: `reply = Some(v)` of the Ok arm with `last_error = Some(e)` of an Err arm)"""
    items = list(choice.items())
    if len(items) < 2 or len(items) > 4:
        return True
    import itertools
    for perm in itertools.permutations(items):
        ok = True
        held = []
        for k, (l, pt) in enumerate(perm):
            held.append(l)
            nxt = perm[k + 1][1] if k + 1 < len(perm) else use
            kills = _kill_points(body, held) - {nxt}
            if pt == nxt:
                continue
            if nxt[0] < 0 or not _reach_nokill(body, pt, nxt, kills):
                ok = False
                break
        if ok:
            return True
    return False


def variant_mismatch(e):
    """does the value project variant V out of an aggregate that was built as another variant W (`(Enum::W{..} as V).0`)?  Such a
    value belongs to a combination of reaching definitions that no execution has"""
    if not isinstance(e, tuple):
        return False
    if len(e) >= 3 and e[0] == "variant" and isinstance(e[1], tuple) and e[1] and e[1][0] == "agg" and isinstance(e[1][2], str) and isinstance(e[2], str) and e[1][2] != e[2]:
        return True
    return any(variant_mismatch(x) for x in e if isinstance(x, tuple))


def split_eval(sym, bb, idx, fn, limit=24):
    """split_rows for an arbitrary evaluation `fn(view)` (e.g. the value of a call with its arguments)"""
    out = []
    work = [{}]
    while work and len(out) + len(work) <= limit:
        ch = work.pop()
        v = SymAt(sym, bb, idx, ch)
        val = fn(v)
        amb = {l: pts for l, pts in v.ambiguous.items() if l not in ch}
        if not amb:
            if choice_feasible(sym.body, ch, (bb, idx)) and not variant_mismatch(val):
                out.append((ch, val))
            continue
        l = sorted(amb)[0]
        for pt in amb[l]:
            c2 = dict(ch)
            c2[l] = pt
            work.append(c2)
    if work:
        return None
    return out
