"""A7: flow-sensitive affine forms for integer locals and Vec lengths, edge facts as linear
inequalities, and a small entailment check (atoms are unsigned, hence >= 0).

No path enumeration and no solver: forward dataflow with join = keep-if-equal else fresh atom.
64-bit target assumed (usize == u64): unsigned widening casts are transparent.
"""
from collections import deque

from .flow import edge_facts_at
from .guards import _variants_for_discr
from .mir import op_place, callee_matches, rv_operands
from .sym import Sym, render

U64_MAX = (1 << 64) - 1


class Form:
    __slots__ = ("c", "t")

    def __init__(self, c=0, t=None):
        self.c = c
        self.t = dict(t) if t else {}

    @staticmethod
    def const(v):
        return Form(v)

    @staticmethod
    def atom(a):
        return Form(0, {a: 1})

    def add(self, o):
        t = dict(self.t)
        for k, v in o.t.items():
            t[k] = t.get(k, 0) + v
            if t[k] == 0:
                del t[k]
        return Form(self.c + o.c, t)

    def neg(self):
        return Form(-self.c, {k: -v for k, v in self.t.items()})

    def sub(self, o):
        return self.add(o.neg())

    def scale(self, k):
        if k == 0:
            return Form(0)
        return Form(self.c * k, {a: v * k for a, v in self.t.items()})

    def is_const(self):
        return not self.t

    def nonneg(self):
        """Is the value provably >= 0 from sign of coefficients alone (atoms >= 0)?"""
        return self.c >= 0 and all(v >= 0 for v in self.t.values())

    def key(self):
        return (self.c, tuple(sorted((repr(k), v) for k, v in self.t.items())))

    def __eq__(self, o):
        return isinstance(o, Form) and self.c == o.c and self.t == o.t

    def __hash__(self):
        return hash(self.key())

    def __repr__(self):
        parts = []
        for k, v in sorted(self.t.items(), key=lambda kv: repr(kv[0])):
            nm = atom_name(k)
            parts.append(nm if v == 1 else "%d*%s" % (v, nm))
        if self.c or not parts:
            parts.append(str(self.c))
        return " + ".join(parts)


def _array_len_of(ty):
    import re
    m = re.match(r"^&(?:mut )?\[[^;\[\]]+; (\d+)\]$", ty.strip())
    return int(m.group(1)) if m else None


def atom_name(a):
    if a[0] == "sym":
        return a[1]
    if a[0] == "len":
        return "len(%s)" % (a[1],)
    if a[0] == "arg":
        return "arg%d" % a[1]
    return "%s" % (":".join(str(x) for x in a),)


UNSIGNED = {"u8": 8, "u16": 16, "u32": 32, "u64": 64, "usize": 64, "u128": 128}
INT_TYS = set(UNSIGNED) | {"i8", "i16", "i32", "i64", "isize", "i128"}

LEN_PRESERVING = ("index", "index_mut", "deref", "deref_mut", "as_mut_slice", "as_slice", "len", "is_empty", "try_reserve",
                  "try_reserve_exact", "reserve", "reserve_exact", "capacity", "as_ptr", "as_mut_ptr", "as_mut", "as_ref", "borrow",
                  "borrow_mut", "iter", "iter_mut", "first", "last", "get", "get_mut", "fill", "copy_from_slice", "clone")


class Affine:
    def __init__(self, body, facts, summaries=None):
        self.b = body
        self.facts = facts
        self.sym = Sym(body)
        self.summaries = summaries or {}
        self.state_in = {}
        self.switch_desc = {}   # bb -> descriptor
        self.call_info = {}     # dest local -> (bb, term)
        self.alias = {}         # local -> local (Try::branch / move chains of Results/Options)
        self.global_facts = []  # facts valid everywhere (e.g. min(a,b) <= a)
        self._fresh = 0
        self._run()

    # ---- helpers -------------------------------------------------------
    def root_local(self, place, depth=0):
        """Follow references back to the local that owns the storage."""
        l = place["l"]
        if depth > 12:
            return l
        defs = self.b.defs_of(l)
        if len(defs) == 1 and defs[0][0] == "assign":
            rv = defs[0][3]
            if "ref" in rv and not [e for e in rv["ref"]["p"] if e != "deref"]:
                return self.root_local(rv["ref"], depth + 1)
            if "use" in rv:
                p = op_place(rv["use"])
                if p is not None and not [e for e in p["p"] if e != "deref"] and self.b.local_ty(l).startswith("&"):
                    return self.root_local(p, depth + 1)
        if len(defs) == 1 and defs[0][0] == "call":
            t = defs[0][2]
            if t["callee"]["name"] in ("deref", "deref_mut", "as_mut", "as_ref", "borrow", "borrow_mut", "as_mut_slice", "as_slice") and t["args"]:
                p = op_place(t["args"][0])
                if p is not None:
                    return self.root_local(p, depth + 1)
        return l

    def fresh(self, tag, bb):
        self._fresh += 1
        return Form.atom(("v", tag, bb))

    def op_form(self, st, op):
        c = op.get("const")
        if c is not None:
            if "v" in c and isinstance(c["v"], int):
                return Form.const(c["v"])
            return None
        p = op_place(op)
        return self.place_form(st, p)

    def place_form(self, st, p):
        l = p["l"]
        proj = [e for e in p["p"] if e != "deref"]
        if not proj:
            if ("L", l) in st:
                return st[("L", l)]
            # reference to an integer local?
            r = self.root_local(p)
            if r != l and ("L", r) in st:
                return st[("L", r)]
            if self._is_int(self.b.local_ty(l)):
                if 1 <= l <= self.b.argc:
                    return Form.atom(("arg", l))
                return Form.atom(("sym", render(self.sym.local(l)), l))
            return None
        fk0 = self._field_key(p)
        if fk0 is not None and fk0 in st and "(" in self.b.local_ty(l):
            return st[fk0]     # slot of a tuple built on this path
        # (sum, overflow) tuples
        if len(proj) == 1 and isinstance(proj[0], dict) and proj[0].get("f") == "0" and ("L", l) in st and "(" in self.b.local_ty(l):
            return st[("L", l)]
        # a field of some aggregate in memory: the value last stored on this path, else named flow-insensitively
        e = self.sym.place(p)
        fk = self._field_key(p)
        if fk is not None and fk in st:
            return st[fk]
        # through a closure environment / a reference held in a temporary: `(env.self).body_length` is `h.body_length`
        try:
            rp = self.resolve_place(p)
        except Exception:
            rp = None
        if rp is not None and rp != p:
            fk2 = self._field_key(rp)
            if fk2 is not None and fk2 in st:
                return st[fk2]
            if not [e_ for e_ in rp["p"] if e_ != "deref"] and ("L", rp["l"]) in st and self._is_int(self.b.local_ty(rp["l"])):
                return st[("L", rp["l"])]       # resolved all the way to the integer the literal was built from
        return Form.atom(("sym", render(e)))

    def _is_int(self, ty):
        return ty.lstrip("&").replace("mut ", "") in INT_TYS

    def len_key(self, op_or_place):
        p = op_place(op_or_place) if ("copy" in op_or_place or "move" in op_or_place or "const" in op_or_place) else op_or_place
        if p is None:
            return None
        proj = [e for e in p["p"] if e != "deref"]
        r = self.root_local(p)
        if proj:
            # storage reached through fields: name symbolically
            return ("sym", render(self.sym.place(p)))
        # a reference local created from a field place (`_5 = &_1.query`): name the field, not the temporary
        defs = self.b.defs_of(r)
        if len(defs) == 1 and defs[0][0] == "assign" and "ref" in defs[0][3] and [e for e in defs[0][3]["ref"]["p"] if e != "deref"]:
            return ("sym", render(self.sym.place(defs[0][3]["ref"])))
        return ("L", r)

    def len_form(self, st, op):
        k = self.len_key(op)
        if k is None:
            return self.fresh("len", -1)
        if ("len", k) in st:
            return st[("len", k)]
        return Form.atom(("len", self._len_name(k)))

    def _len_name(self, k):
        if k[0] == "L":
            return self.b.debug_name(k[1]) or "_%d" % k[1]
        return k[1]

    # ---- dataflow ------------------------------------------------------
    def _run(self):
        b = self.b
        live = b.live_blocks()
        init = {}
        for a in range(1, b.argc + 1):
            if self._is_int(b.local_ty(a)):
                init[("L", a)] = Form.atom(("arg", a))
        self.state_in = {0: init}
        visits = {}
        work = deque([0])
        while work:
            bb = work.popleft()
            visits[bb] = visits.get(bb, 0) + 1
            if visits[bb] > 6:
                continue
            st = dict(self.state_in[bb])
            for idx, s in enumerate(b.blocks[bb]["stmts"]):
                if s["k"] == "assign":
                    self._assign(st, s, bb, idx)
            outs = self._terminator(st, bb)
            for succ, so in outs:
                if succ not in live:
                    continue
                cur = self.state_in.get(succ)
                if cur is None:
                    self.state_in[succ] = so
                    work.append(succ)
                else:
                    new = {}
                    changed = False
                    # an Option that is None on one incoming path constrains nothing: "if Some, payload == F" survives
                    for k, v in list(so.items()):
                        if k[0] == "opt" and k not in cur and ("optnone", k[1]) in cur:
                            cur = dict(cur)
                            cur[k] = v
                    for k, v in cur.items():
                        if k[0] == "opt" and k not in so and ("optnone", k[1]) in so:
                            new[k] = v
                        elif k[0] == "optnone" and k not in so and ("opt", k[1]) in so:
                            changed = True
                        elif k in so and so[k] == v:
                            new[k] = v
                        else:
                            changed = True
                            if k in so and (k[0] == "L"):
                                new[k] = Form.atom(("phi", k[1], succ))
                                if cur[k] == new[k]:
                                    changed = changed and False or changed
                    if set(new.items()) != set(cur.items()):
                        self.state_in[succ] = new
                        work.append(succ)

    def _field_key(self, pl):
        """state key of an integer field reached through named fields of a local (flow-sensitive field stores):
        ("F", owning local, "field.path")"""
        proj = [e for e in pl["p"] if e != "deref"]
        if not proj or not all(isinstance(e, dict) and "f" in e for e in proj):
            return None
        return ("F", self.root_local({"l": pl["l"], "p": []}), ".".join(str(e["f"]) for e in proj))

    def field_form(self, st, base_pl, *names):
        """form last stored into base_pl.<names> on this path, or None"""
        proj = [e for e in base_pl["p"] if e != "deref"]
        if not all(isinstance(e, dict) and "f" in e for e in proj):
            return None
        path = ".".join([str(e["f"]) for e in proj] + list(names))
        return st.get(("F", self.root_local({"l": base_pl["l"], "p": []}), path))

    def _assign(self, st, s, bb, idx):
        pl = s["place"]
        rv = s["rv"]
        if pl["p"]:
            fk = self._field_key(pl)
            if fk is not None:
                f = None
                if "use" in rv:
                    f = self.op_form(st, rv["use"])
                elif "cast" in rv and rv.get("kind", "").startswith("IntToInt"):
                    f = self.op_form(st, rv["cast"])
                elif "bin" in rv and rv["bin"] in ("Add", "Sub"):
                    a, bf = self.op_form(st, rv["a"]), self.op_form(st, rv["b"])
                    if a is not None and bf is not None:
                        f = a.add(bf) if rv["bin"] == "Add" else a.sub(bf)
                # a store into a prefix/suffix of the place invalidates what was known below it
                for k in [k for k in st if k[0] == "F" and k[1] == fk[1] and (k[2].startswith(fk[2] + ".") or fk[2].startswith(k[2] + "."))]:
                    st.pop(k, None)
                if f is not None:
                    st[fk] = f
                else:
                    st.pop(fk, None)
            elif not [e for e in pl["p"] if e != "deref"]:
                # *ref = value: whole-object store through a reference
                r = self.root_local({"l": pl["l"], "p": []})
                for k in [k for k in st if k[0] == "F" and k[1] == r]:
                    st.pop(k, None)
            return
        l = pl["l"]
        key = ("L", l)
        # whole-local assignment: field facts of that local are gone
        for k in [k for k in st if k[0] == "F" and k[1] == l]:
            st.pop(k, None)
        f = None
        st.pop(("optnone", l), None)
        if "use" in rv:
            f = self.op_form(st, rv["use"])
            p = op_place(rv["use"])
            # payload of a checked sum:  _n = ((_opt as Some).0)
            if p is not None and len(p["p"]) == 2 and isinstance(p["p"][0], dict) and p["p"][0].get("variant") == "Some" \
                    and isinstance(p["p"][1], dict) and p["p"][1].get("i") == 0 and ("opt", p["l"]) in st:
                f = st[("opt", p["l"])]
            if p is not None:
                # propagate Option/Result wrappers:  _q = move (_b as Continue).0
                if ("opt", p["l"]) in st and not p["p"]:
                    st[("opt", l)] = st[("opt", p["l"])]
                src = p["l"]
                if len(p["p"]) == 2 and isinstance(p["p"][0], dict) and p["p"][0].get("variant") == "Some" and isinstance(p["p"][1], dict) and p["p"][1].get("i") == 0:
                    # sub = (s.get(a..b) as Some).0
                    if ("optslicelen", src) in st:
                        st[("slicelen", l)] = st[("optslicelen", src)]
                    if ("optsuboff", src) in st:
                        st[("suboff", l)] = st[("optsuboff", src)]
                if len(p["p"]) == 2 and isinstance(p["p"][0], dict) and p["p"][0].get("variant") == "Ready" and isinstance(p["p"][1], dict) and p["p"][1].get("i") == 0:
                    for k_ in [k_ for k_ in st if k_[0].startswith("rdy_") and k_[1] == src]:
                        st[(k_[0][4:], l) + tuple(k_[2:])] = st[k_]
                if not p["p"]:
                    for k_ in [k_ for k_ in st if k_[0].startswith("rdy_") and k_[1] == src]:
                        st[(k_[0], l) + tuple(k_[2:])] = st[k_]
                if not p["p"]:
                    for kk in ("optslicelen", "optsuboff", "optfit", "suboff"):
                        if (kk, src) in st:
                            st[(kk, l)] = st[(kk, src)]
                    for k_ in [k_ for k_ in st if k_[0] in ("flen", "resflen") and k_[1] == src]:
                        st[(k_[0], l, k_[2])] = st[k_]
                elif len(p["p"]) == 1 and isinstance(p["p"][0], dict) and "f" in p["p"][0] and ("flen", src, str(p["p"][0]["f"])) in st:
                    st[("len", ("L", l))] = st[("flen", src, str(p["p"][0]["f"]))]
                elif len(p["p"]) == 2 and isinstance(p["p"][0], dict) and p["p"][0].get("variant") in ("Continue", "Ok", "Some") and isinstance(p["p"][1], dict) and p["p"][1].get("i") == 0:
                    for k_ in [k_ for k_ in st if k_[0] == "resflen" and k_[1] == src]:
                        st[("flen", l, k_[2])] = st[k_]
                elif len(p["p"]) == 3 and isinstance(p["p"][0], dict) and p["p"][0].get("variant") in ("Continue", "Ok", "Some") and isinstance(p["p"][2], dict) and "f" in p["p"][2] \
                        and ("resflen", src, str(p["p"][2]["f"])) in st:
                    st[("len", ("L", l))] = st[("resflen", src, str(p["p"][2]["f"]))]
                if ("tuplen", src) in st:
                    # (head, tail) = slice.split_at(n): the halves carry their lengths
                    if len(p["p"]) == 1 and isinstance(p["p"][0], dict) and p["p"][0].get("i") in (0, 1):
                        st[("slicelen", l)] = st[("tuplen", src)][p["p"][0]["i"]]
                    elif not p["p"]:
                        st[("tuplen", l)] = st[("tuplen", src)]
                if ("reslen", src) in st:
                    if p["p"]:
                        st[("len", ("L", l))] = st[("reslen", src)]
                    else:
                        st[("reslen", l)] = st[("reslen", src)]
                if not p["p"] and src in self.call_info:
                    self.alias[l] = src
                if not p["p"]:
                    # a whole-value move carries the known fields along
                    for k_ in [k_ for k_ in st if k_[0] == "F" and k_[1] == src]:
                        st[("F", l, k_[2])] = st[k_]
                if not p["p"] and ("len", ("L", src)) in st and self.b.local_ty(l) == self.b.local_ty(src):
                    st[("len", ("L", l))] = st[("len", ("L", src))]
        elif "ref" in rv and not [e for e in rv["ref"]["p"] if e != "deref"]:
            f = self.place_form(st, rv["ref"])
        elif "ref" in rv and len(rv["ref"]["p"]) == 2 and isinstance(rv["ref"]["p"][0], dict) and rv["ref"]["p"][0].get("variant") == "Some" \
                and isinstance(rv["ref"]["p"][1], dict) and rv["ref"]["p"][1].get("i") == 0 and ("opt", rv["ref"]["l"]) in st:
            f = st[("opt", rv["ref"]["l"])]     # `Some(ref n)` binding of a checked sum
        elif "cast" in rv:
            src = self.op_form(st, rv["cast"])
            tgt = rv["ty"]
            p = op_place(rv["cast"])
            sty = self.b.local_ty(p["l"]) if p is not None and not p["p"] else None
            if sty is None and "const" in rv["cast"]:
                sty = rv["cast"]["const"].get("ty")
            ok = tgt in UNSIGNED and (sty in UNSIGNED and UNSIGNED[tgt] >= UNSIGNED[sty]) if sty else False
            if sty is None and tgt in ("usize", "u64"):
                # field reads: type of the field is not carried; u64 <-> usize on the wire lengths
                ok = rv["kind"].startswith("IntToInt")
            f = src if ok and src is not None else None
        elif "bin" in rv:
            a = self.op_form(st, rv["a"])
            bf = self.op_form(st, rv["b"])
            op = rv["bin"]
            if a is not None and bf is not None:
                if op in ("Add", "AddWithOverflow", "AddUnchecked"):
                    f = a.add(bf)
                elif op in ("Sub", "SubWithOverflow", "SubUnchecked"):
                    f = a.sub(bf)
                elif op in ("Mul", "MulWithOverflow") and (a.is_const() or bf.is_const()):
                    f = bf.scale(a.c) if a.is_const() else a.scale(bf.c)
        elif "agg" in rv and rv["agg"] == "adt" and rv.get("fields") and not rv.get("variant") or \
                ("agg" in rv and rv["agg"] == "adt" and rv.get("fields") and rv["adt"] not in ("std::option::Option", "std::result::Result") and len(rv["fields"]) > 1):
            # a struct literal: its integer fields are known from now on (read back later through `local.field`)
            for fn_, op_ in zip(rv["fields"], rv["ops"]):
                fv = self.op_form(st, op_)
                if fv is not None:
                    st[("F", l, str(fn_))] = fv
                # ... and so are the lengths of the vectors moved into it (`WirePayload { query, body }`)
                q_ = op_place(op_)
                st.pop(("flen", l, str(fn_)), None)
                if q_ is not None and not q_["p"] and ("len", ("L", q_["l"])) in st:
                    st[("flen", l, str(fn_))] = st[("len", ("L", q_["l"]))]
        elif rv.get("agg") == "tuple" and rv.get("ops"):
            # a tuple (the argument pack of a closure call, a pair built for a match): its integer slots are known
            for k_, op_ in enumerate(rv["ops"]):
                fv = self.op_form(st, op_)
                if fv is not None:
                    st[("F", l, str(k_))] = fv
        elif "agg" in rv and rv["agg"] == "adt" and rv["adt"] == "std::option::Option" and rv["variant"] == "Some":
            x = self.op_form(st, rv["ops"][0])
            if x is not None:
                st[("some", l)] = x
        elif "agg" in rv and rv["agg"] == "adt" and rv["adt"] == "std::result::Result" and rv["variant"] == "Ok" and rv["ops"]:
            # Ok(vec): the payload's length travels with the Result (same key a summarised `-> Result<Vec<u8>>` helper sets)
            p = op_place(rv["ops"][0])
            st.pop(("reslen", l), None)
            for k_ in [k_ for k_ in st if k_[0] == "resflen" and k_[1] == l]:
                st.pop(k_, None)
            if p is not None and not p["p"] and ("len", ("L", p["l"])) in st:
                st[("reslen", l)] = st[("len", ("L", p["l"]))]
            if p is not None and not p["p"]:
                for k_ in [k_ for k_ in st if k_[0] == "flen" and k_[1] == p["l"]]:
                    st[("resflen", l, k_[2])] = st[k_]
        elif rv.get("agg") == "adt" and rv.get("variant") == "Ready" and str(rv.get("adt", "")).endswith("Poll") and len(rv.get("ops") or []) == 1:
            # Poll::Ready(res) of a spliced async helper: what is known about `res` travels inside
            p = op_place(rv["ops"][0])
            for k_ in [k_ for k_ in st if k_[0].startswith("rdy_") and k_[1] == l]:
                st.pop(k_, None)
            if p is not None and not p["p"]:
                for k_ in [k_ for k_ in st if k_[0] in ("reslen", "resflen", "opt") and k_[1] == p["l"]]:
                    st[("rdy_" + k_[0], l) + tuple(k_[2:])] = st[k_]
        elif "agg" in rv and rv["agg"] == "adt" and rv["adt"] == "std::option::Option" and rv["variant"] == "None":
            st.pop(("opt", l), None)
            st[("optnone", l)] = True
            st.pop(key, None)
            return
        if f is None:
            if self._is_int(self.b.local_ty(l)) or "(" in self.b.local_ty(l):
                f = Form.atom(("v", l, bb, idx))
            else:
                st.pop(key, None)
                return
        st[key] = f

    def _terminator(self, st, bb):
        b = self.b
        t = b.term(bb)
        k = t["k"]
        if k == "switch":
            self._describe_switch(st, bb, t)
        if k != "call":
            return [(s, dict(st)) for s in b.succs(bb)]
        c = t["callee"]
        name = c["name"]
        dest = t["dest"]
        so = dict(st)
        args = t["args"]
        # a callee that receives `&mut x` may store into x's fields
        tys = t.get("arg_tys") or []
        for ai, a in enumerate(args):
            if ai < len(tys) and tys[ai].startswith("&mut"):
                ap = op_place(a)
                if ap is None:
                    continue
                r = self.root_local(ap)
                for k in [k for k in so if k[0] == "F" and k[1] == r]:
                    so.pop(k, None)
        if not dest["p"]:
            dl = dest["l"]
            self.call_info[dl] = (bb, t)
            so.pop(("L", dl), None)
            so.pop(("opt", dl), None)
            so.pop(("reslen", dl), None)
            so.pop(("tuplen", dl), None)
            so.pop(("len", ("L", dl)), None)
            f = None
            if name == "len" and args:
                f = self._slice_len(st, args[0]) or self.len_form(st, args[0])
            elif name in ("checked_add",) and len(args) == 2:
                a, bf = self.op_form(st, args[0]), self.op_form(st, args[1])
                if a is not None and bf is not None:
                    so[("opt", dl)] = a.add(bf)
            elif name == "and_then" and len(args) == 2:
                p0 = op_place(args[0])
                base = st.get(("opt", p0["l"])) if p0 is not None and not p0["p"] else None
                extra = self._closure_checked_add(st, args[1])
                if base is not None and extra is not None:
                    so[("opt", dl)] = base.add(extra)
            elif name in ("min",) and len(args) == 2 and c.get("trait", "").endswith("Ord"):
                a, bf = self.op_form(st, args[0]), self.op_form(st, args[1])
                f = Form.atom(("v", dl, bb, "min"))
                if a is not None:
                    self.global_facts.append(("le", f, a))
                if bf is not None:
                    self.global_facts.append(("le", f, bf))
            elif name == "branch" and args:
                p0 = op_place(args[0])
                if p0 is not None and not p0["p"]:
                    self.alias[dl] = p0["l"]
                    for kk in ("opt", "reslen"):
                        if (kk, p0["l"]) in st:
                            so[(kk, dl)] = st[(kk, p0["l"])]
                    for k_ in [k_ for k_ in st if k_[0] == "resflen" and k_[1] == p0["l"]]:
                        so[("resflen", dl, k_[2])] = st[k_]
            elif c["path"] in self.facts.bodies and self._is_int(self.b.local_ty(dl)) and args:
                f = self._callee_int_summary(st, c["path"], args)
            elif name in ("new",) and "Vec" in c["path"]:
                so[("len", ("L", dl))] = Form.const(0)
            elif name == "with_capacity" and "Vec" in c["path"]:
                so[("len", ("L", dl))] = Form.const(0)
            elif name == "from_elem" and len(args) == 2:
                n = self.op_form(st, args[1])
                if n is not None:
                    so[("len", ("L", dl))] = n
            elif name == "to_vec" and args:
                sl = self._slice_len(st, args[0])
                if sl is not None:
                    so[("len", ("L", dl))] = sl
            elif name in ("index", "index_mut") and len(args) == 2:
                sl = self._range_len(st, args[0], args[1])
                if sl is not None:
                    so[("slicelen", dl)] = sl
                so_ = self._sub_origin_of_call(st, args)
                so.pop(("suboff", dl), None)
                if so_ is not None:
                    so[("suboff", dl)] = so_
            elif name in ("get", "get_mut") and len(args) == 2 and "[T]" in c["path"] and self.range_bounds(st, args[1]) is not None:
                # `s.get(a..b)`: Some(sub) iff the range fits; sub = s[a..b]
                for kk in ("optslicelen", "optsuboff", "optfit"):
                    so.pop((kk, dl), None)
                sl = self._range_len(st, args[0], args[1])
                rb_ = self.range_bounds(st, args[1])
                bl_ = self._slice_len(st, args[0])
                if sl is not None:
                    so[("optslicelen", dl)] = sl
                so_ = self._sub_origin_of_call(st, args)
                if so_ is not None:
                    so[("optsuboff", dl)] = so_
                if rb_ is not None and bl_ is not None:
                    end_ = rb_[2] if rb_[4] else bl_
                    if end_ is not None and rb_[1] is not None:
                        so[("optfit", dl)] = (rb_[1], end_, bl_)
            elif name in ("split_at", "split_at_mut", "split_at_checked") and len(args) == 2 and "slice" in c["path"] or name == "split_at" and "[T]" in c["path"]:
                so.pop(("tuplen", dl), None)
                whole = self._slice_len(st, args[0])
                n = self.op_form(st, args[1])
                if whole is not None and n is not None and name != "split_at_checked":
                    so[("tuplen", dl)] = (n, whole.sub(n))
            elif c["path"] in self.summaries and self.summaries[c["path"]].get("ok_len_arg") is not None:
                n = self.op_form(st, args[self.summaries[c["path"]]["ok_len_arg"]])
                if n is not None:
                    so[("reslen", dl)] = n
            if f is None and (self._is_int(b.local_ty(dl))):
                f = Form.atom(("v", dl, bb, "call"))
            if f is not None:
                so[("L", dl)] = f
        # effects on Vec lengths through &mut receivers
        if args:
            p0 = op_place(args[0])
            if p0 is not None:
                rk = self.len_key(p0)
                recv_ty = b.local_ty(p0["l"])
                if "Vec<" in recv_ty or ("len", rk) in st:
                    if name == "resize" and len(args) >= 2:
                        n = self.op_form(st, args[1])
                        if n is not None:
                            so[("len", rk)] = n
                        else:
                            so.pop(("len", rk), None)
                    elif name == "clear":
                        so[("len", rk)] = Form.const(0)
                    elif name == "extend_from_slice" and len(args) == 2 and ("len", rk) in st:
                        add = self._slice_len(st, args[1])
                        if add is not None:
                            so[("len", rk)] = st[("len", rk)].add(add)
                        else:
                            so.pop(("len", rk), None)
                    elif name in LEN_PRESERVING or "&mut" not in recv_ty:
                        pass
                    elif c["path"] in self.summaries and self.summaries[c["path"]].get("len_preserving"):
                        pass
                    else:
                        so.pop(("len", rk), None)
        # ... and through a `&mut Vec` handed over in any other position (`reader.read_to_end(&mut buf)`): the callee may grow or
        # shrink it, so its length afterwards is a new unknown (not the old one, and not the atom an untracked vector gets)
        for ai, a in enumerate(args):
            if ai == 0 or ai >= len(tys) or not tys[ai].startswith("&mut") or "Vec<" not in tys[ai]:
                continue
            ap = op_place(a)
            if ap is None or name in LEN_PRESERVING:
                continue
            rk = self.len_key(ap)
            if rk is not None:
                so[("len", rk)] = Form.atom(("len", "%s@bb%d" % (self._len_name(rk), bb)))
        outs = []
        for s in b.succs(bb):
            outs.append((s, so if s == t["target"] else dict(st)))
        return outs

    _SUMMARY_STACK = []

    def _callee_int_summary(self, st, path, args):
        """Value of a small in-crate integer-valued function as an affine form over its arguments and the lengths of
        vectors/slices reachable from them (e.g. Message::serialized_len = 48 + len(self.query) + len(self.body)),
        instantiated with this call's arguments.  Derived from the callee's own body; None when it is not that simple."""
        if path in Affine._SUMMARY_STACK or len(Affine._SUMMARY_STACK) > 3:
            return None
        cb = self.facts.bodies[path]
        if cb.kind not in ("fn", "method") or len(cb.blocks) > 40:
            return None
        Affine._SUMMARY_STACK.append(path)
        try:
            ca = Affine(cb, self.facts, self.summaries)
        finally:
            Affine._SUMMARY_STACK.pop()
        forms = []
        for rb in cb.return_blocks():
            if rb not in cb.live_blocks():
                continue
            stc = ca._state_at_term(rb)
            forms.append(stc.get(("L", 0)))
        if not forms or any(f is None for f in forms) or any(f != forms[0] for f in forms[1:]):
            return None
        out = Form.const(forms[0].c)
        for atom, co in forms[0].t.items():
            inst = None
            if atom[0] == "arg" and 1 <= atom[1] <= len(args):
                inst = self.op_form(st, args[atom[1] - 1])
            elif atom[0] == "len" and isinstance(atom[1], str):
                for k in range(1, cb.argc + 1):
                    nm = cb.debug_name(k) or "arg%d" % k
                    if atom[1] == nm or atom[1].startswith(nm + "."):
                        ap = op_place(args[k - 1]) if k - 1 < len(args) else None
                        if ap is None:
                            break
                        base = render(self.sym.place(ap))
                        inst = Form.atom(("len", base + atom[1][len(nm):]))
                        break
            if inst is None:
                return None
            out = out.add(inst.scale(co))
        return out

    def _closure_checked_add(self, st, clo_op):
        """closure |n| n.checked_add(captured): returns the form of the captured addend."""
        p = op_place(clo_op)
        if p is None or p["p"]:
            return None
        defs = self.b.defs_of(p["l"])
        if len(defs) != 1 or defs[0][0] != "assign":
            return None
        rv = defs[0][3]
        if rv.get("agg") != "closure":
            return None
        cb = self.facts.bodies.get(rv["def"])
        if cb is None:
            return None
        cs = Sym(cb)
        v = cs.local(0)
        if not (v[0] == "call" and v[1].endswith("checked_add") and len(v[2]) == 2):
            return None
        a, b2 = v[2]
        cap = None
        if a[0] == "arg" and a[1] == 2 and b2[0] == "field" and b2[1][0] == "arg" and b2[1][1] == 1:
            cap = b2[2]
        elif b2[0] == "arg" and b2[1] == 2 and a[0] == "field" and a[1][0] == "arg" and a[1][1] == 1:
            cap = a[2]
        if cap is None:
            return None
        for nm, op in zip(rv["fields"], rv["ops"]):
            if nm == cap:
                return self.op_form(st, op)
        return None

    def resolve_place(self, place, limit=24):
        """Follow a place back through moves, tuple / enum aggregates (matching the projection), `?` (Try::branch:
        Continue payload = Ok/Some payload) and - for a local with several definitions - the one definition that
        builds the projected variant.  Returns the simplified place (a local plus the remaining projection)."""
        b = self.b
        l, proj = place["l"], [e for e in place["p"]]
        before_branch = None
        for _ in range(limit):
            defs = b.defs_of(l)
            var = proj[0].get("variant") if proj and isinstance(proj[0], dict) and "variant" in proj[0] else None
            if len(defs) > 1 and var is not None:
                defs = [d for d in defs if d[0] == "assign" and d[3].get("agg") == "adt" and d[3].get("variant") == var]
            if len(defs) != 1:
                break
            d = defs[0]
            if d[0] == "assign":
                rv = d[3]
                if "use" in rv:
                    src = op_place(rv["use"])
                    if src is None:
                        break
                    l, proj = src["l"], list(src["p"]) + proj
                    continue
                if rv.get("agg") == "tuple" and proj and isinstance(proj[0], dict) and "i" in proj[0] and "variant" not in proj[0]:
                    i = proj[0]["i"]
                    if i >= len(rv["ops"]):
                        break
                    src = op_place(rv["ops"][i])
                    if src is None:
                        break
                    l, proj = src["l"], list(src["p"]) + proj[1:]
                    continue
                if rv.get("agg") == "adt" and var is not None and rv.get("variant") == var and len(proj) >= 2 and isinstance(proj[1], dict) and "i" in proj[1]:
                    i = proj[1]["i"]
                    if i >= len(rv["ops"]):
                        break
                    src = op_place(rv["ops"][i])
                    if src is None:
                        break
                    l, proj = src["l"], list(src["p"]) + proj[2:]
                    continue
                if "ref" in rv and (not proj or proj[0] == "deref"):
                    l, proj = rv["ref"]["l"], list(rv["ref"]["p"]) + (proj[1:] if proj else [])
                    continue
                if rv.get("agg") in ("closure", "coroutine") and proj and isinstance(proj[0], dict) and proj[0].get("f") in (rv.get("fields") or []):
                    # a captured variable of a closure value built here: `env.self` is whatever was captured
                    src = op_place(rv["ops"][rv["fields"].index(proj[0]["f"])])
                    if src is None:
                        break
                    l, proj = src["l"], list(src["p"]) + proj[1:]
                    continue
                if rv.get("agg") == "adt" and var is None and proj and isinstance(proj[0], dict) and proj[0].get("f") in (rv.get("fields") or []) \
                        and rv.get("adt") not in ("std::option::Option", "std::result::Result"):
                    # a field of a struct literal built here
                    src = op_place(rv["ops"][rv["fields"].index(proj[0]["f"])])
                    if src is None:
                        break
                    l, proj = src["l"], list(src["p"]) + proj[1:]
                    continue
                break
            if d[0] != "call":
                break
            t = d[2]
            if t["callee"]["name"] == "branch" and var == "Continue" and len(proj) >= 2 and t["args"]:
                a = op_place(t["args"][0])
                if a is None:
                    break
                ty = b.local_ty(a["l"]) if not a["p"] else ""
                inner = "Ok" if ty.startswith("std::result::Result<") else "Some" if ty.startswith("std::option::Option<") else None
                if inner is None:
                    break
                before_branch = (l, list(proj))
                l, proj = a["l"], list(a["p"]) + [{"variant": inner, "vi": 0 if inner == "Ok" else 1}] + proj[1:]
                continue
            break
        # stepping through `?` only pays off when the tested value was built here (an aggregate); a `?` on a call result is
        # left as it is written, so that both sides of a comparison keep the same spelling
        if before_branch is not None and proj and isinstance(proj[0], dict) and proj[0].get("variant") in ("Ok", "Some"):
            l, proj = before_branch
        return {"l": l, "p": proj}

    def _slice_len(self, st, op):
        p = op_place(op)
        if p is None:
            return None
        rp = self.resolve_place(p)
        if all(e == "deref" for e in rp["p"]):
            p = {"l": rp["l"], "p": []}
        # slice produced by an index call in this body?
        l = p["l"]
        seen = 0
        while seen < 8:
            seen += 1
            if ("slicelen", l) in st:
                return st[("slicelen", l)]
            defs = self.b.defs_of(l)
            if len(defs) == 1 and defs[0][0] == "assign":
                rv = defs[0][3]
                nxt = None
                if "ref" in rv:
                    nxt = rv["ref"]["l"]
                elif "use" in rv and op_place(rv["use"]):
                    nxt = op_place(rv["use"])["l"]
                elif "cast" in rv and op_place(rv["cast"]):
                    nxt = op_place(rv["cast"])["l"]
                    # &[T; N] -> &[T]: the slice has the array's length
                    n = _array_len_of(self.b.local_ty(nxt))
                    if n is not None and "Unsize" in str(rv.get("kind")):
                        return Form.const(n)
                if nxt is None:
                    break
                l = nxt
                continue
            if len(defs) == 1 and defs[0][0] == "call" and defs[0][2]["callee"]["name"] in ("deref", "deref_mut", "as_slice", "as_mut_slice", "as_ref", "borrow"):
                a0 = op_place(defs[0][2]["args"][0])
                if a0 is None:
                    break
                return self.len_form(st, defs[0][2]["args"][0])
            break
        return self.len_form(st, op)

    def range_bounds(self, st, rng_op):
        """(kind, start_form, end_form) for a Range/RangeTo/RangeFrom aggregate operand."""
        p = op_place(rng_op)
        if p is None or p["p"]:
            return None
        defs = self.b.defs_of(p["l"])
        if len(defs) != 1 or defs[0][0] != "assign":
            return None
        rv = defs[0][3]
        if rv.get("agg") != "adt" or not rv["adt"].startswith("std::ops::Range"):
            return None
        d = dict(zip(rv["fields"], rv["ops"]))
        s = self.op_form(st, d["start"]) if "start" in d else Form.const(0)
        e = self.op_form(st, d["end"]) if "end" in d else None
        return (rv["adt"].rsplit("::", 1)[-1], s, e, "start" in d, "end" in d)

    def sub_origin(self, st, op):
        """(root argument local, offset form) when the slice `op` denotes is known to be arg[offset ..]; None otherwise"""
        p = op_place(op)
        if p is None:
            return None
        l = p["l"]
        for _ in range(10):
            if ("suboff", l) in st:
                return st[("suboff", l)]
            if 1 <= l <= self.b.argc and len(self.b.defs_of(l)) == 1:
                return (l, Form.const(0))
            defs = self.b.defs_of(l)
            if len(defs) != 1:
                return None
            d = defs[0]
            if d[0] == "assign":
                rv = d[3]
                q = rv.get("ref") or (op_place(rv["use"]) if "use" in rv else None) or (op_place(rv["cast"]) if "cast" in rv else None)
                if q is None or [e for e in q["p"] if e != "deref"]:
                    return None
                l = q["l"]
                continue
            if d[0] == "call" and d[2]["callee"]["name"] in ("deref", "deref_mut", "as_slice", "as_mut_slice", "as_ref", "borrow") and d[2]["args"]:
                q = op_place(d[2]["args"][0])
                if q is None:
                    return None
                l = q["l"]
                continue
            return None
        return None

    def _sub_origin_of_call(self, st, args):
        base = self.sub_origin(st, args[0])
        rb = self.range_bounds(st, args[1])
        if base is None or rb is None or rb[1] is None:
            return None
        return (base[0], base[1].add(rb[1]))

    def abs_range(self, st, base_op, rng_op):
        """(root argument local, absolute start, absolute end) of `base[rng]` when base is a known sub-slice of an argument"""
        base = self.sub_origin(st, base_op)
        rb = self.range_bounds(st, rng_op)
        if base is None or rb is None or rb[1] is None:
            return None
        if rb[4]:
            if rb[2] is None:
                return None
            end = base[1].add(rb[2])
        else:
            bl = self._slice_len(st, base_op)
            if bl is None:
                return None
            end = base[1].add(bl)
        return (base[0], base[1].add(rb[1]), end)

    def _range_len(self, st, base_op, rng_op):
        rb = self.range_bounds(st, rng_op)
        if rb is None:
            return None
        kind, s, e, has_s, has_e = rb
        if s is None:
            return None
        if has_e:
            if e is None:
                return None
            if kind == "RangeInclusive" or kind == "RangeToInclusive":
                return e.sub(s).add(Form.const(1))
            return e.sub(s)
        base_len = self._slice_len(st, base_op)
        if base_len is None:
            return None
        return base_len.sub(s)

    # ---- switch descriptors / facts -------------------------------------
    def _describe_switch(self, st, bb, t):
        b = self.b
        p = op_place(t["on"])
        if p is None:
            return
        # the tested bool may be a copy, or one slot of a tuple built just for the match: `match (a == x, b == y)`
        for _ in range(6):
            defs = b.defs_of(p["l"])
            if len(defs) != 1 or defs[0][0] != "assign":
                break
            rv0 = defs[0][3]
            if not p["p"] and ("use" in rv0) and op_place(rv0["use"]) is not None and b.local_ty(p["l"]) == "bool":
                p = op_place(rv0["use"])
                continue
            if len(p["p"]) == 1 and isinstance(p["p"][0], dict) and str(p["p"][0].get("f", "")).isdigit() and rv0.get("agg") == "tuple":
                q = op_place(rv0["ops"][int(p["p"][0]["f"])])
                if q is None:
                    break
                p = q
                continue
            break
        if p["p"]:
            return
        defs = b.defs_of(p["l"])
        if len(defs) != 1:
            return
        d = defs[0]
        if d[0] == "assign":
            rv = d[3]
            if "bin" in rv and rv["bin"] in ("Lt", "Le", "Gt", "Ge", "Eq", "Ne"):
                # operands evaluated with the state at the comparison (same block in built MIR)
                stc = st if d[1] == bb else self._state_at(d[1], d[2])
                a = self.op_form(stc, rv["a"])
                c2 = self.op_form(stc, rv["b"])
                if a is not None and c2 is not None:
                    self.switch_desc[bb] = ("cmp", rv["bin"], a, c2)
            elif "discr" in rv:
                pl = rv["discr"]
                if not [e for e in pl["p"] if e != "deref"]:
                    vm = _variants_for_discr(b, self.facts, t, bb)
                    src = pl["l"]
                    stc = st
                    info = {"kind": "discr", "variants": vm, "local": src}
                    if ("opt", src) in stc:
                        info["optsum"] = stc[("opt", src)]
                    if ("optfit", src) in stc:
                        info["optfit"] = stc[("optfit", src)]
                    # resolve through Try::branch / moves to the producing call
                    cur = src
                    hops = 0
                    while cur in self.alias and hops < 6:
                        cur = self.alias[cur]
                        hops += 1
                    # Result::map_err / map keep Ok-ness: look through to the producing call
                    hops = 0
                    while cur in self.call_info and self.call_info[cur][1]["callee"]["name"] in ("map_err", "map", "ok_or", "ok_or_else") and hops < 4:
                        p0 = op_place(self.call_info[cur][1]["args"][0])
                        if p0 is None or p0["p"]:
                            break
                        cur = p0["l"]
                        while cur in self.alias and cur not in self.call_info:
                            cur = self.alias[cur]
                        hops += 1
                    if cur in self.call_info:
                        cbb, ct = self.call_info[cur]
                        info["call"] = (cbb, ct, [self.op_form(self._state_at_term(cbb), a) for a in ct["args"]])
                    self.switch_desc[bb] = ("discr", info)
        elif d[0] == "call":
            ct = d[2]
            nm = ct["callee"]["name"]
            stc = self._state_at_term(d[1]) if d[1] != bb else st
            if nm in ("eq", "ne") and len(ct["args"]) == 2:
                pa, pb = op_place(ct["args"][0]), op_place(ct["args"][1])
                if pa is not None and pb is not None:
                    la, lb = self.root_local(pa), self.root_local(pb)
                    for x, y in ((la, lb), (lb, la)):
                        if ("opt", x) in stc and ("some", y) in stc:
                            self.switch_desc[bb] = ("opteq", nm == "ne", stc[("opt", x)], stc[("some", y)])
                    fa, fb = self.place_form(stc, pa), self.place_form(stc, pb)
                    if bb not in self.switch_desc and fa is not None and fb is not None:
                        self.switch_desc[bb] = ("cmp", "Eq" if nm == "eq" else "Ne", fa, fb)
            elif nm in ("lt", "le", "gt", "ge") and len(ct["args"]) == 2:
                fa = self.op_form(stc, ct["args"][0])
                fb = self.op_form(stc, ct["args"][1])
                if fa is not None and fb is not None:
                    self.switch_desc[bb] = ("cmp", nm.capitalize(), fa, fb)
            elif nm == "is_empty" and ct["args"]:
                self.switch_desc[bb] = ("cmp", "Eq", self._slice_len(stc, ct["args"][0]) or self.len_form(stc, ct["args"][0]), Form.const(0))

    def _state_at(self, bb, idx):
        st = dict(self.state_in.get(bb, {}))
        for i, s in enumerate(self.b.blocks[bb]["stmts"][:idx]):
            if s["k"] == "assign":
                self._assign(st, s, bb, i)
        return st

    def _state_at_term(self, bb):
        return self._state_at(bb, len(self.b.blocks[bb]["stmts"]))

    def state_at(self, pt):
        return self._state_at(pt[0], pt[1])

    def facts_at(self, bb):
        """Linear facts holding on every path into block bb."""
        out = list(self.global_facts)
        for s, vals, succ in edge_facts_at(self.b, bb):
            d = self.switch_desc.get(s)
            if d is None:
                continue
            t = self.b.term(s)
            explicit = [v for v, _ in t["targets"]]
            if d[0] in ("cmp", "opteq"):
                if vals == {0}:
                    val = False
                elif (vals == {None} and explicit == [0]) or vals == {1}:
                    val = True
                elif vals == {None} and explicit == [1]:
                    val = False
                else:
                    continue
                if d[0] == "cmp":
                    out.extend(cmp_to_facts(d[1], d[2], d[3], val))
                else:
                    neg, optsum, x = d[1], d[2], d[3]
                    equal = (not val) if neg else val
                    if equal:
                        out.append(("nooverflow", optsum))
                        out.append(("eq", optsum, x))
            elif d[0] == "discr":
                info = d[1]
                vm = info["variants"] or {}
                if None in vals:
                    names = [n for dd, n in vm.items() if dd not in explicit] + [vm[v] for v in vals if v is not None and v in vm]
                else:
                    names = [vm.get(v, str(v)) for v in vals]
                if len(names) != 1:
                    continue
                nm = names[0]
                if nm == "Some" and "optsum" in info:
                    out.append(("nooverflow", info["optsum"]))
                if nm == "Some" and "optfit" in info:
                    s0, e0, bl0 = info["optfit"]
                    out.append(("le", e0, bl0))
                    out.append(("le", s0, e0))
                if nm in ("Continue", "Ok") and "call" in info:
                    cbb, ct, aforms = info["call"]
                    out.append(("call_ok", ct["callee"]["path"], ct, aforms, cbb))
        return out


def cmp_to_facts(op, a, b, val):
    if not val:
        op = {"Lt": "Ge", "Le": "Gt", "Gt": "Le", "Ge": "Lt", "Eq": "Ne", "Ne": "Eq"}[op]
    if op == "Lt":
        return [("le", a.add(Form.const(1)), b)]
    if op == "Le":
        return [("le", a, b)]
    if op == "Gt":
        return [("le", b.add(Form.const(1)), a)]
    if op == "Ge":
        return [("le", b, a)]
    if op == "Eq":
        return [("eq", a, b)]
    return []


def entails_le(facts, L, R, depth=3, bounded_atoms=()):
    """Is L <= R provable from sign reasoning plus chaining at most `depth` facts?"""
    if R.sub(L).nonneg():
        return True
    if depth == 0:
        return False
    les = []
    for f in facts:
        if f[0] == "le":
            les.append((f[1], f[2]))
        elif f[0] == "eq":
            les.append((f[1], f[2]))
            les.append((f[2], f[1]))
    for (a, b) in les:
        # L <= a  and  a <= b (fact)  and  b <= R
        if a.sub(L).nonneg():
            rest = [x for x in facts if not (x[0] in ("le", "eq") and x[1] is a and x[2] is b)]
            if entails_le(rest, b, R, depth - 1):
                return True
    # substitution with equalities:  if eq(a,b) and L mentions a's atoms, rewrite R - L
    for f in facts:
        if f[0] == "eq":
            a, b = f[1], f[2]
            for (x, y) in ((a, b), (b, a)):
                # replace one occurrence:  L' = L - x + y
                if all(k in L.t for k in x.t) and x.t:
                    L2 = L.sub(x).add(y)
                    rest = [g for g in facts if g is not f]
                    if entails_le(rest, L2, R, depth - 1):
                        return True
                if all(k in R.t for k in x.t) and x.t:
                    R2 = R.sub(x).add(y)
                    rest = [g for g in facts if g is not f]
                    if entails_le(rest, L, R2, depth - 1):
                        return True
    return False


def entails_bounded(facts, F, values_in_scope=()):
    """Is F <= u64::MAX provable?  F is bounded if it is a constant, or F <= G where G is a sum known not
    to overflow (checked-sum fact), the length of a slice/Vec (<= isize::MAX), or the value of an
    already-computed machine integer (every stored usize/u64 is <= MAX by type)."""
    if F.is_const():
        return 0 <= F.c <= U64_MAX
    if any(v < 0 for v in F.t.values()):
        # differences: bounded above by their positive part
        pos = Form(F.c if F.c > 0 else 0, {k: v for k, v in F.t.items() if v > 0})
        return entails_bounded(facts, pos, values_in_scope)
    for f in facts:
        if f[0] == "nooverflow" and entails_le(facts, F, f[1]):
            return True
    for g in values_in_scope:
        if g is not None and entails_le(facts, F, g):
            return True
    # a single length atom with coefficient 1 (+ nothing): len <= isize::MAX
    if F.c == 0 and len(F.t) == 1:
        (a, v), = F.t.items()
        if v == 1:
            return True
    # sums of at most three slice/Vec lengths plus a small constant: every in-memory length is < 2^62 on the
    # 64-bit targets (address-space bound; stated assumption), so the sum is < 2^64
    if F.t and all(a[0] == "len" and v >= 1 for a, v in F.t.items()) and sum(F.t.values()) <= 3 and 0 <= F.c < (1 << 62):
        return True
    return False
