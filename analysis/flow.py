"""Path, provenance and guard analyses (A2, A3, A5, A6, A10) over mir.Body."""
from collections import deque

from .mir import op_place, op_const, rv_operands, fmt_place, fmt_op, callee_matches

# ---------------------------------------------------------------------------
# A2 must-pass-through on program points (bb, idx); idx == len(stmts) is the terminator.


def term_pt(body, bb):
    return (bb, len(body.blocks[bb]["stmts"]))


def must_cross(body, starts, exits, events, unwind=False, after_start=True, stop=()):
    """Return None if every path from a start point to any exit point crosses an event point,
    else a witness path (list of blocks).  `starts` are points; with after_start the walk begins
    just *after* each start point.  `stop` points end a path harmlessly (e.g. diverging calls)."""
    events = set(events)
    exits = set(exits)
    stop = set(stop)
    seen = set()
    dq = deque()
    parent = {}

    def push(pt, frm):
        if pt not in seen:
            seen.add(pt)
            parent[pt] = frm
            dq.append(pt)

    def advance(pt):
        bb, idx = pt
        n = len(body.blocks[bb]["stmts"])
        if idx < n:
            return [(bb, idx + 1)]
        return [(s, 0) for s in body.succs(bb, unwind)]

    for s in starts:
        if after_start:
            for nx in advance(s):
                push(nx, None)
        else:
            push(s, None)
    while dq:
        pt = dq.popleft()
        if pt in events or pt in stop:
            continue
        if pt in exits:
            path = []
            cur = pt
            while cur is not None:
                if not path or path[-1] != cur[0]:
                    path.append(cur[0])
                cur = parent[cur]
            return list(reversed(path))
        for nx in advance(pt):
            push(nx, pt)
    return None


def return_points(body):
    return [term_pt(body, b) for b in body.return_blocks() if b in body.live_blocks()]


def exit_points(body, unwind=False):
    """return + (optionally) resume terminators"""
    out = []
    live = body.live_blocks(unwind)
    for i, b in enumerate(body.blocks):
        if i in live and (b["term"]["k"] == "return" or (unwind and b["term"]["k"] in ("resume", "coroutine_drop"))):
            out.append(term_pt(body, i))
    return out


# ---------------------------------------------------------------------------
# A3 path counts


def _sccs(nodes, succ):
    index = {}
    low = {}
    onst = set()
    st = []
    out = []
    counter = [0]
    for root in nodes:
        if root in index:
            continue
        work = [(root, iter(succ(root)))]
        index[root] = low[root] = counter[0]
        counter[0] += 1
        st.append(root)
        onst.add(root)
        while work:
            n, it = work[-1]
            adv = False
            for s in it:
                if s not in index:
                    index[s] = low[s] = counter[0]
                    counter[0] += 1
                    st.append(s)
                    onst.add(s)
                    work.append((s, iter(succ(s))))
                    adv = True
                    break
                elif s in onst:
                    low[n] = min(low[n], index[s])
            if adv:
                continue
            work.pop()
            if work:
                p = work[-1][0]
                low[p] = min(low[p], low[n])
            if low[n] == index[n]:
                comp = []
                while True:
                    x = st.pop()
                    onst.discard(x)
                    comp.append(x)
                    if x == n:
                        break
                out.append(comp)
    return out


INF = float("inf")


def path_counts(body, event_blocks, start=0, exits=None, avoid=(), unwind=False):
    """(min, max) number of event blocks executed on any path start -> exit (exits default: return
    blocks).  max is INF if an event lies on a cycle.  Returns None when no exit is reachable."""
    event_blocks = set(event_blocks)
    avoid = set(avoid)
    nodes = body.reachable((start,), unwind, avoid=avoid)
    if exits is None:
        exits = set(body.return_blocks())
    exits = set(exits) & nodes

    def succ(n):
        return [s for s in body.succs(n, unwind) if s in nodes]

    comps = _sccs(sorted(nodes), succ)  # reverse topological order
    comp_of = {}
    for i, c in enumerate(comps):
        for n in c:
            comp_of[n] = i
    best = {}
    for i, c in enumerate(comps):  # successors' comps come first
        cyc = len(c) > 1 or any(n in succ(n) for n in c)
        ev = sum(1 for n in c if n in event_blocks)
        w_min = 0 if cyc and False else ev
        if cyc:
            # inside a cycle an event can run any number of times; the minimum is the fewest events
            # on a way through, conservatively 0 unless the component is a single block.
            w_max = INF if ev else 0
            w_min = ev if len(c) == 1 else 0
        else:
            w_max = ev
        mn, mx = None, None
        is_exit = any(n in exits for n in c)
        if is_exit:
            mn, mx = 0, 0
        for n in c:
            for s in succ(n):
                j = comp_of[s]
                if j == i or best.get(j) is None:
                    continue
                a, b = best[j]
                mn = a if mn is None else min(mn, a)
                mx = b if mx is None else max(mx, b)
        best[i] = None if mn is None else (mn + w_min, mx + w_max)
    return best.get(comp_of.get(start))


def in_cycle(body, bb, unwind=False):
    """is block bb on a CFG cycle?"""
    for s in body.succs(bb, unwind):
        if bb in body.reachable((s,), unwind) or s == bb:
            return True
    return False


# ---------------------------------------------------------------------------
# A5 provenance

TRANSPARENT = (
    "std::clone::Clone::clone",
    "std::ops::Deref::deref",
    "std::ops::DerefMut::deref_mut",
    "std::convert::AsRef::as_ref",
    "std::convert::AsMut::as_mut",
    "std::borrow::Borrow::borrow",
    "std::convert::Into::into",
    "std::convert::From::from",
    "std::vec::Vec::<T, A>::as_slice",
    "std::vec::Vec::<T, A>::as_mut_slice",
    "std::string::String::as_str",
    "std::string::String::as_bytes",
    "core::str::<impl str>::as_bytes",
    "std::option::Option::<T>::as_ref",
    "std::option::Option::<T>::as_mut",
    "std::option::Option::<T>::as_deref",
    "std::option::Option::<&T>::copied",
    "std::option::Option::<&T>::cloned",
    "std::result::Result::<T, E>::as_ref",
    "std::ops::Try::branch",
    "std::ops::FromResidual::from_residual",
    "std::future::IntoFuture::into_future",
    "std::pin::Pin::<Ptr>::new_unchecked",
    "std::pin::Pin::<Ptr>::new",
    "std::sync::Arc::<T>::new",
    "std::boxed::Box::<T>::new",
    "std::borrow::ToOwned::to_owned",
    "core::slice::<impl [T]>::to_vec",
)


OKPAYLOAD = "?ok.0"       # path step left by `Try::branch(x) as Continue .0`: the payload of x's success variant


class Origin:
    __slots__ = ("kind", "key", "path", "info")

    def __init__(self, kind, key, path=(), info=None):
        self.kind = kind  # arg | call | const | agg | rv | unknown
        self.key = key
        self.path = tuple(x for x in path if x != OKPAYLOAD)
        self.info = info

    def __repr__(self):
        p = ("." + ".".join(self.path)) if self.path else ""
        if self.kind == "call":
            return "call<%s@bb%d>%s" % (self.info["callee"]["path"], self.key, p)
        if self.kind == "arg":
            return "arg%d%s" % (self.key, p)
        if self.kind == "const":
            return "const(%s)%s" % (self.key, p)
        return "%s<%s>%s" % (self.kind, self.key, p)

    def ident(self):
        return (self.kind, self.key, self.path)


def _proj_path(p):
    out = []
    pend = None
    for e in p["p"]:
        if e == "deref":
            continue
        if "variant" in e:
            pend = e["variant"]
        elif "f" in e:
            out.append((pend + "." if pend else "") + e["f"])
            pend = None
        elif "index" in e or "cindex" in e or "subslice" in e:
            out.append("[]")
    return out


def trace_place(body, place, extra_transparent=(), _seen=None, _path=()):
    """Origins of the value read through `place` (flow-insensitive union over definitions)."""
    seen = _seen if _seen is not None else set()
    l = place["l"]
    path = tuple(_proj_path(place)) + tuple(_path)
    key = (l, path)
    if key in seen:
        return []
    seen.add(key)
    out = []
    defs = list(body.defs_of(l))
    # partial assignments  _l.f.g = x
    for i, b in enumerate(body.blocks):
        for j, s in enumerate(b["stmts"]):
            if s["k"] == "assign" and s["place"]["l"] == l and s["place"]["p"]:
                pp = tuple(_proj_path(s["place"]))
                if pp and path[: len(pp)] == pp:
                    out.extend(_trace_rv(body, s["rv"], path[len(pp):], i, j, extra_transparent, seen))
        t = b["term"]
        if t["k"] == "call" and t["dest"]["l"] == l and t["dest"]["p"]:
            pp = tuple(_proj_path(t["dest"]))
            if pp and path[: len(pp)] == pp:
                out.append(Origin("call", i, path[len(pp):], t))
    for d in defs:
        if d[0] == "arg":
            out.append(Origin("arg", d[1], path))
        elif d[0] == "assign":
            out.extend(_trace_rv(body, d[3], path, d[1], d[2], extra_transparent, seen))
        elif d[0] == "call":
            t = d[2]
            if t["args"] and (callee_matches(t["callee"], *TRANSPARENT) or callee_matches(t["callee"], *extra_transparent)):
                out.extend(trace_op(body, t["args"][0], extra_transparent, seen, path_after=path, strip_wrapper=True))
            else:
                out.append(Origin("call", d[1], path, t))
    if not defs and not out:
        out.append(Origin("unknown", l, path))
    return out


def _strip_wrappers(path):
    # Try::branch gives ControlFlow::Continue.0 of the Ok value; unwrap-like paths are dropped
    return tuple(OKPAYLOAD if p == "Continue.0" else p for p in path)


def trace_op(body, op, extra_transparent=(), _seen=None, path_after=(), strip_wrapper=False):
    p = op_place(op)
    if strip_wrapper:
        path_after = _strip_wrappers(path_after)
    if p is not None:
        return trace_place(body, p, extra_transparent, _seen, path_after)
    c = op.get("const")
    if c is not None:
        if "fn" in c:
            return [Origin("const", "fn:" + c["fn"]["path"], path_after, c)]
        k = c.get("name") or (str(c["v"]) if "v" in c else c.get("str", c["ty"]))
        return [Origin("const", k, path_after, c)]
    return [Origin("unknown", "op", path_after)]


def _trace_rv(body, rv, path, bb, idx, extra, seen):
    if "use" in rv:
        return trace_op(body, rv["use"], extra, seen, path)
    if "ref" in rv:
        return trace_place(body, rv["ref"], extra, seen, path)
    if "rawptr" in rv:
        return trace_place(body, rv["rawptr"], extra, seen, path)
    if "cast" in rv:
        return trace_op(body, rv["cast"], extra, seen, path)
    if "agg" in rv:
        kind = rv["agg"]
        if path and kind in ("adt", "closure", "coroutine", "coroutine_closure"):
            head = path[0]
            names = rv.get("fields", [])
            variant = rv.get("variant")
            if head == OKPAYLOAD:
                # `Ok(v)?` / `Some(v)?` is v; a literal `Err(..)` / `None` never comes out of the `?`
                if variant in ("Ok", "Some") and len(rv["ops"]) == 1:
                    return trace_op(body, rv["ops"][0], extra, seen, path[1:])
                if variant in ("Err", "None"):
                    return []
                return _trace_rv(body, rv, path[1:], bb, idx, extra, seen)
            for nm, op in zip(names, rv["ops"]):
                if head == nm or head == "%s.%s" % (variant, nm):
                    return trace_op(body, op, extra, seen, path[1:])
            if isinstance(variant, str) and isinstance(head, str) and "." in head and head.split(".", 1)[0] != variant:
                # `(x as Some).0` read where this definition made x a `None`: not an origin of the payload on any path
                return []
            return [Origin("agg", (bb, idx), path, rv)]
        if path and path[0] == OKPAYLOAD:
            return _trace_rv(body, rv, path[1:], bb, idx, extra, seen)
        if path and kind == "tuple":
            try:
                i = int(path[0])
                return trace_op(body, rv["ops"][i], extra, seen, path[1:])
            except (ValueError, IndexError):
                pass
        return [Origin("agg", (bb, idx), path, rv)]
    return [Origin("rv", (bb, idx), path, rv)]


# ---------------------------------------------------------------------------
# A6 guards: facts carried by switch edges

STD_ENUM_VARIANTS = {
    "std::option::Option": {0: "None", 1: "Some"},
    "std::result::Result": {0: "Ok", 1: "Err"},
    "std::ops::ControlFlow": {0: "Continue", 1: "Break"},
    "std::task::Poll": {0: "Ready", 1: "Pending"},
    "std::borrow::Cow": {0: "Borrowed", 1: "Owned"},
}


def enum_variants(facts, ty):
    base = ty.lstrip("&").replace("mut ", "")
    base = base.split("<", 1)[0].strip()
    if base in STD_ENUM_VARIANTS:
        return STD_ENUM_VARIANTS[base]
    a = facts.adts.get(base)
    if a and a["kind"] == "enum":
        return {v["discr"]: v["name"] for v in a["variants"]}
    return None


def switch_cond(body, bb, facts=None):
    """Describe what a SwitchInt in block bb tests.
    Returns dict(kind=cmp|discr|call|place|const|unknown, ...) ; values on edges are in the term."""
    t = body.term(bb)
    assert t["k"] == "switch"
    return describe_bool(body, t["on"], facts, t.get("on_ty"))


def describe_bool(body, op, facts=None, ty=None, _depth=0):
    p = op_place(op)
    if p is None:
        return {"kind": "const", "op": op}
    if p["p"] or _depth > 6:
        return {"kind": "place", "place": p, "origins": trace_place(body, p)}
    defs = body.defs_of(p["l"])
    if len(defs) != 1:
        return {"kind": "place", "place": p, "origins": trace_place(body, p), "multi": True}
    d = defs[0]
    if d[0] == "assign":
        rv = d[3]
        if "bin" in rv and rv["bin"] in ("Lt", "Le", "Gt", "Ge", "Eq", "Ne"):
            return {"kind": "cmp", "op": rv["bin"], "a": rv["a"], "b": rv["b"], "at": (d[1], d[2])}
        if "un" in rv and rv["un"] == "Not":
            inner = describe_bool(body, rv["a"], facts, ty, _depth + 1)
            return {"kind": "not", "inner": inner}
        if "discr" in rv:
            pl = rv["discr"]
            lty = body.local_ty(pl["l"])
            return {"kind": "discr", "place": pl, "origins": trace_place(body, pl), "base_ty": lty}
        if "use" in rv:
            return describe_bool(body, rv["use"], facts, ty, _depth + 1)
        return {"kind": "rv", "rv": rv}
    if d[0] == "call":
        return {"kind": "call", "callee": d[2]["callee"], "args": d[2]["args"], "bb": d[1], "term": d[2]}
    return {"kind": "place", "place": p, "origins": trace_place(body, p)}


def edge_facts_at(body, target_bb, unwind=False):
    """All (switch_bb, value_set, is_otherwise) such that every path from entry to target_bb leaves
    switch_bb through an edge carrying one of the values.  value None stands for `otherwise`."""
    out = []
    live = body.live_blocks(unwind)
    if target_bb not in live:
        return out
    for s in sorted(live):
        t = body.term(s)
        if t["k"] != "switch":
            continue
        if not body.dominates(s, target_bb, unwind) or s == target_bb:
            continue
        by_target = {}
        for v, b in t["targets"]:
            by_target.setdefault(b, set()).add(v)
        by_target.setdefault(t["otherwise"], set()).add(None)
        # which single successor edge dominates target?
        for succ_bb, vals in by_target.items():
            others = [(s, o) for o in by_target if o != succ_bb]
            # removing edge s->succ_bb must make target unreachable
            r = body.reachable((0,), unwind, avoid_edges=[(s, succ_bb)])
            if target_bb not in r:
                out.append((s, vals, succ_bb))
                break
    return out


def cond_value_holds(vals, want_true):
    """For a bool switch: targets [[0, bbF]], otherwise bbT.  vals is the edge's value set."""
    if want_true:
        return vals == {None} or vals == {1}
    return vals == {0}


# ---------------------------------------------------------------------------
# A10 definitely-initialised locals (forward must analysis)


def _moved_locals_in_operands(ops):
    out = []
    for o in ops:
        if "move" in o and not o["move"]["p"]:
            out.append(o["move"]["l"])
    return out


def definitely_init(body, unwind=False):
    """Per block: set of locals definitely initialised at block entry (and not moved/dropped)."""
    n = len(body.blocks)
    live = body.live_blocks(unwind)
    ALL = None
    state_in = {b: ALL for b in live}
    state_in[0] = frozenset(range(1, body.argc + 1))
    work = deque([0])
    preds = body.preds(unwind)
    out_cache = {}

    def transfer(bb, s):
        s = set(s)
        for st in body.blocks[bb]["stmts"]:
            k = st["k"]
            if k == "assign":
                for l in _moved_locals_in_operands(rv_operands(st["rv"])):
                    s.discard(l)
                if not st["place"]["p"]:
                    s.add(st["place"]["l"])
            elif k == "dead":
                s.discard(st["l"])
        return s

    def term_out(bb, s, succ):
        t = body.term(bb)
        s = set(s)
        k = t["k"]
        if k == "call":
            if not t.get("inlined_future"):
                # (the arguments of an `async fn` helper whose body was inlined at its await stay with the caller: the inlined
                # body uses them in place and drops them where the helper did)
                for l in _moved_locals_in_operands(t["args"]):
                    s.discard(l)
            if succ == t["target"] and not t["dest"]["p"]:
                s.add(t["dest"]["l"])
        elif k == "drop":
            if not t["place"]["p"]:
                s.discard(t["place"]["l"])
        elif k == "yield":
            for l in _moved_locals_in_operands([t["value"]]):
                s.discard(l)
        elif k == "switch":
            for l in _moved_locals_in_operands([t["on"]]):
                s.discard(l)
        return frozenset(s)

    while work:
        b = work.popleft()
        s_in = state_in[b]
        if s_in is ALL:
            continue
        mid = transfer(b, s_in)
        for succ in body.succs(b, unwind):
            o = term_out(b, mid, succ)
            cur = state_in.get(succ, ALL)
            new = o if cur is ALL else (cur & o)
            if cur is ALL or new != cur:
                state_in[succ] = new
                work.append(succ)
    return {b: (s if s is not ALL else frozenset()) for b, s in state_in.items()}


def init_at_point(body, init_in, pt):
    bb, idx = pt
    s = set(init_in.get(bb, ()))
    for st in body.blocks[bb]["stmts"][:idx]:
        k = st["k"]
        if k == "assign":
            for l in _moved_locals_in_operands(rv_operands(st["rv"])):
                s.discard(l)
            if not st["place"]["p"]:
                s.add(st["place"]["l"])
        elif k == "dead":
            s.discard(st["l"])
    return s


def yields(body, unwind=False):
    live = body.live_blocks(unwind)
    return [i for i in sorted(live) if body.term(i)["k"] == "yield"]


def awaited_future_ty(body, ybb):
    """Type of the future polled in the await loop that contains yield block ybb (best effort)."""
    # the poll call precedes the yield: find Future::poll call block dominating ybb closest
    best = None
    for i, t in body.calls():
        if callee_matches(t["callee"], "std::future::Future::poll") and body.dominates(i, ybb):
            if best is None or body.dominates(best[0], i):
                best = (i, t)
    if best is None:
        return None
    return best[1]["callee"].get("self_ty") or (best[1]["callee"]["targs"][0] if best[1]["callee"]["targs"] else None)
