"""Build (or fetch from the content-hash cache) the fact file for /repo's working tree.

Facts are produced by /verif/driver (a rustc_private RUSTC_WORKSPACE_WRAPPER) under
`cargo +nightly check --offline --lib`.  Cache key = sha256 of the repo sources, the
feature set and the driver binary, so an edited tree is always re-analysed.
"""
import fcntl
import hashlib
import json
import os
import shutil
import subprocess
import sys
import time
import uuid

VERIF = os.path.dirname(os.path.dirname(os.path.abspath(__file__)))
REPO = os.environ.get("REPE_REPO", "/repo")
CACHE = os.path.join(VERIF, ".cache")
DRIVER = os.path.join(VERIF, "driver", "target", "debug", "repe-facts-driver")

FULL = ("websocket", "value-stream", "parking-lot", "fleet-udp")

# Feature configurations for the thorough tier: all subsets of the three features that
# decide which anchored impls/call sites exist, plus the full union with fleet-udp.
def thorough_configs():
    base = ("websocket", "value-stream", "parking-lot")
    out = []
    for m in range(8):
        out.append(tuple(b for i, b in enumerate(base) if m >> i & 1))
    out.append(FULL)
    return out


def _nightly_sysroot():
    return subprocess.check_output(["rustc", "+nightly", "--print", "sysroot"], text=True).strip()


def ensure_driver():
    if os.path.exists(DRIVER):
        src_m = max(
            os.path.getmtime(os.path.join(VERIF, "driver", "src", f))
            for f in os.listdir(os.path.join(VERIF, "driver", "src"))
        )
        if os.path.getmtime(DRIVER) >= src_m:
            return
    env = dict(os.environ, CARGO_NET_OFFLINE="true")
    r = subprocess.run(
        ["cargo", "build", "--offline"], cwd=os.path.join(VERIF, "driver"), env=env,
        stdout=subprocess.PIPE, stderr=subprocess.STDOUT, text=True,
    )
    if r.returncode != 0:
        sys.stderr.write(r.stdout)
        raise SystemExit("driver build failed")


def tree_hash(repo, features):
    h = hashlib.sha256()
    h.update(("features=" + ",".join(sorted(features))).encode())
    with open(DRIVER, "rb") as f:
        h.update(hashlib.sha256(f.read()).digest())
    files = []
    for top in ("Cargo.toml", "Cargo.lock", "build.rs"):
        p = os.path.join(repo, top)
        if os.path.exists(p):
            files.append(p)
    for sub in ("src", "repe-derive"):
        for root, dirs, fs in os.walk(os.path.join(repo, sub)):
            dirs[:] = [d for d in dirs if d != "target"]
            for f in fs:
                files.append(os.path.join(root, f))
    for p in sorted(files):
        h.update(os.path.relpath(p, repo).encode())
        with open(p, "rb") as f:
            h.update(hashlib.sha256(f.read()).digest())
    return h.hexdigest()[:32]


def build_facts(features=FULL, repo=None, crates="repe", quiet=True, target_dir=None):
    """Return (path_to_fact_json, info dict). Rebuilds unless an identical tree was analysed."""
    repo = repo or REPO
    ensure_driver()
    key = tree_hash(repo, features)
    fdir = os.path.join(CACHE, "facts")
    os.makedirs(fdir, exist_ok=True)
    out = os.path.join(fdir, key + ".json")
    if os.path.exists(out):
        return out, {"cached": True, "key": key, "features": list(features)}
    target = target_dir or os.path.join(CACHE, "target")
    os.makedirs(target, exist_ok=True)
    # Checks may run in parallel (one process per property): builds on one cargo target directory are
    # serialised with an advisory lock, and a process that waited re-checks the cache first.
    with open(os.path.join(target, ".verif-build.lock"), "w") as lk:
        fcntl.flock(lk, fcntl.LOCK_EX)
        try:
            if os.path.exists(out):
                return out, {"cached": True, "key": key, "features": list(features), "waited_for_peer_build": True}
            return _build_locked(features, repo, crates, target, out, key, fdir)
        finally:
            fcntl.flock(lk, fcntl.LOCK_UN)


def _build_locked(features, repo, crates, target, out, key, fdir):
    t0 = time.time()
    nonce = uuid.uuid4().hex
    scratch = os.path.join(CACHE, "scratch", nonce)
    os.makedirs(scratch)
    # cargo's freshness cache would skip the wrapper: drop the fingerprints of the dumped crates.
    fp = os.path.join(target, "debug", ".fingerprint")
    if os.path.isdir(fp):
        for d in os.listdir(fp):
            for c in crates.split(","):
                if d.startswith(c + "-"):
                    shutil.rmtree(os.path.join(fp, d), ignore_errors=True)
    env = dict(os.environ)
    env.update(
        LD_LIBRARY_PATH=_nightly_sysroot() + "/lib",
        RUSTFLAGS="-Zmir-opt-level=0 -Awarnings",
        RUSTC_WORKSPACE_WRAPPER=DRIVER,
        REPE_FACTS_DIR=scratch,
        REPE_FACTS_NONCE=nonce,
        REPE_FACTS_CRATES=crates,
        CARGO_TARGET_DIR=target,
        CARGO_NET_OFFLINE="true",
    )
    cmd = ["cargo", "+nightly", "check", "--offline", "--lib"]
    if features:
        cmd += ["--features", ",".join(features)]
    r = subprocess.run(cmd, cwd=repo, env=env, stdout=subprocess.PIPE, stderr=subprocess.STDOUT, text=True)
    if r.returncode != 0:
        shutil.rmtree(scratch, ignore_errors=True)
        sys.stderr.write(r.stdout[-6000:])
        raise SystemExit("BUILD-FAILED: cargo check of %s with features %s failed" % (repo, features))
    produced = [f for f in os.listdir(scratch) if f.endswith(".json")]
    want = crates.split(",")[0]
    mine = [f for f in produced if f.startswith(want + "-")]
    if len(mine) != 1:
        shutil.rmtree(scratch, ignore_errors=True)
        raise SystemExit("FACTS-MISSING: driver produced %r (cargo skipped the wrapper?)" % produced)
    src = os.path.join(scratch, mine[0])
    with open(src) as f:
        head = f.read(400)
    if nonce not in head:
        raise SystemExit("FACTS-STALE: nonce mismatch")
    os.replace(src, out)
    shutil.rmtree(scratch, ignore_errors=True)
    _prune(fdir, keep=120)
    return out, {"cached": False, "key": key, "features": list(features), "build_s": round(time.time() - t0, 2)}


def _prune(fdir, keep):
    fs = sorted((os.path.getmtime(os.path.join(fdir, f)), f) for f in os.listdir(fdir))
    now = time.time()
    for m, f in fs[:-keep]:
        if now - m < 3 * 3600:   # never pull a file from under a concurrently running check
            continue
        try:
            os.remove(os.path.join(fdir, f))
        except OSError:
            pass


if __name__ == "__main__":
    p, info = build_facts()
    print(p, json.dumps(info))
