"""Undo pure renames relative to the reference tree before the rules run.

The rules name private fields, parameters and functions of the tree they were written against.  A later commit that
only *renames* such a symbol leaves behaviour unchanged, so it must not raise an alarm.  rules/spec/known_shapes.json
freezes, for the reference tree, every in-crate struct's field list (name, type) and every function's parameter names
and signature.  On load:

 * a struct whose field list has the same length and the same types position by position, but different names for
   some positions (the old names no longer existing), has those fields renamed back - in the ADT table, in every
   field projection that carries the ADT path, and in every aggregate of that ADT;
 * a known function whose parameters have the same types but other debug names gets the reference names back;
 * a known function that is missing while exactly one *new* function with the same parent and the same signature
   exists is treated as renamed (body and callee paths are rewritten).

Anything that is not a pure rename (a field added, a type changed, a parameter added) is left alone and the rules'
own anchors decide.  The list is never used to fire a rule.
"""
import copy
import json
import os

VERIF = os.path.dirname(os.path.dirname(os.path.abspath(__file__)))
KNOWN = os.path.join(VERIF, "rules", "spec", "known_shapes.json")


def load_known():
    if not os.path.exists(KNOWN):
        return None
    with open(KNOWN) as f:
        return json.load(f)


_POS = __import__("re").compile(r"@[\w./\\-]+\.rs:\d+:\d+: \d+:\d+")


def body_hash(b):
    """hash of a function's MIR without source positions: equal iff the function compiled to the same code"""
    import hashlib

    def strip(x):
        if isinstance(x, dict):
            return {k: strip(v) for k, v in x.items() if k != "span"}
        if isinstance(x, list):
            return [strip(v) for v in x]
        return x
    txt = json.dumps(strip({"l": [l.get("ty") for l in b["locals"]], "b": b["blocks"]}), sort_keys=True)
    # closure / async-block type names carry the position of their source text: `{closure@src/x.rs:339:37: 339:46}`
    txt = _POS.sub("@", txt)
    return hashlib.sha1(txt.encode()).hexdigest()[:16]


def changed_functions(raw, known=None):
    """paths of bodies (functions, closures, coroutines) whose MIR differs from the reference tree, or that are new"""
    known = known if known is not None else load_known()
    if not known or "hashes" not in known:
        return set()
    hs = known["hashes"]
    out = set()
    for p, b in raw["bodies"].items():
        if p not in hs or body_hash(b) not in hs[p]:
            out.add(p)
    return out


def shapes_of(raw):
    adts = {}
    for path, a in raw["adts"].items():
        if a.get("kind") != "struct" or not a.get("variants"):
            continue
        adts[path] = [[f["name"], f.get("ty")] for f in a["variants"][0]["fields"]]
    fns = {}
    for path, b in raw["bodies"].items():
        if "{closure" in path or b["kind"] not in ("fn", "method"):
            continue
        names = {}
        for dbg in b.get("debug", []):
            p = dbg.get("place")
            if p and not p["p"] and 1 <= p["l"] <= b["argc"] and not dbg.get("inlined_from"):
                names[p["l"]] = dbg["name"]
        fns[path] = {"args": [names.get(i) for i in range(1, b["argc"] + 1)],
                     "sig": [b["locals"][i]["ty"] for i in range(0, b["argc"] + 1)], "parent": b.get("parent")}
    return {"adts": adts, "fns": fns}


def _walk_rename_fields(x, fmap):
    """fmap: {adt: {new: old}}"""
    if isinstance(x, dict):
        a = x.get("a")
        if isinstance(a, str) and a in fmap and isinstance(x.get("f"), str) and x["f"] in fmap[a]:
            x["f"] = fmap[a][x["f"]]
        if x.get("agg") == "adt" and isinstance(x.get("adt"), str) and x.get("adt") in fmap and isinstance(x.get("fields"), list):
            m = fmap[x["adt"]]
            x["fields"] = [m.get(f, f) for f in x["fields"]]
        for v in x.values():
            _walk_rename_fields(v, fmap)
    elif isinstance(x, list):
        for v in x:
            _walk_rename_fields(v, fmap)


def _walk_rename_paths(x, pmap):
    if isinstance(x, dict):
        for k in ("path", "decl", "def"):
            v = x.get(k)
            if isinstance(v, str):
                for new, old in pmap.items():
                    if v == new or v.startswith(new + "::{"):
                        x[k] = old + v[len(new):]
        for v in x.values():
            _walk_rename_paths(v, pmap)
    elif isinstance(x, list):
        for v in x:
            _walk_rename_paths(v, pmap)


def apply(raw, known=None):
    rep = {"fields": [], "args": [], "fns": []}
    known = known if known is not None else load_known()
    if not known:
        return rep
    cur = shapes_of(raw)
    # ---- fields
    fmap = {}
    for adt, ref in known["adts"].items():
        now = cur["adts"].get(adt)
        if now is None or len(now) != len(ref) or now == ref:
            continue
        if any(rt != nt for (_, rt), (_, nt) in zip(ref, now)):
            continue
        now_names = {n for n, _ in now}
        m = {}
        ok = True
        for (rn, _), (nn, _) in zip(ref, now):
            if rn != nn:
                if rn in now_names:
                    ok = False      # the old name still exists elsewhere: a reorder, not a rename
                m[nn] = rn
        if ok and m:
            fmap[adt] = m
            rep["fields"].append((adt, m))
    if fmap:
        for adt, m in fmap.items():
            for f in raw["adts"][adt]["variants"][0]["fields"]:
                f["name"] = m.get(f["name"], f["name"])
        _walk_rename_fields(raw["bodies"], fmap)
        # debug names of closure captures / bindings that mirror a field are left alone
    # ---- function renames
    missing = [p for p in known["fns"] if p not in cur["fns"]]
    new = [p for p in cur["fns"] if p not in known["fns"]]
    pmap = {}
    for old in missing:
        ref = known["fns"][old]
        same_mod = [p for p in new if cur["fns"][p]["parent"] == ref["parent"] and p.rsplit("::", 1)[0] == old.rsplit("::", 1)[0]]
        cands = [p for p in same_mod if cur["fns"][p]["sig"] == ref["sig"]]
        if not cands:
            # renamed *and* an equivalent parameter type change (&Arc<T> -> &T ...): same arity and return type, and the
            # only missing/new pair of that shape in the module
            loose = [p for p in same_mod if len(cur["fns"][p]["sig"]) == len(ref["sig"]) and cur["fns"][p]["sig"][0] == ref["sig"][0]]
            others_missing = [m for m in missing if m != old and m.rsplit("::", 1)[0] == old.rsplit("::", 1)[0]
                              and len(known["fns"][m]["sig"]) == len(ref["sig"]) and known["fns"][m]["sig"][0] == ref["sig"][0]]
            if len(loose) == 1 and not others_missing:
                cands = loose
        if not cands:
            # moved onto another type of the same module (a method of the client becomes a method of its inner state, a free
            # function becomes a method): same module, same arity and return type, and the only missing / new pair of that shape
            mod = old.split("::")[0]
            shape = (len(ref["sig"]), ref["sig"][0])
            wide = [p for p in new if p.split("::")[0] == mod and (len(cur["fns"][p]["sig"]), cur["fns"][p]["sig"][0]) == shape]
            wide_missing = [m for m in missing if m != old and m.split("::")[0] == mod and (len(known["fns"][m]["sig"]), known["fns"][m]["sig"][0]) == shape]
            if len(wide) == 1 and not wide_missing and ref["sig"][0] not in ("()", "bool"):
                cands = wide
            else:
                # ... or the same function under the same name: `m::f(&x)` became `m::T::f(&self)` (or back)
                named = [p for p in wide if p.rsplit("::", 1)[-1] == old.rsplit("::", 1)[-1]]
                if len(named) == 1:
                    cands = named
        if len(cands) == 1 and cands[0] not in pmap:
            pmap[cands[0]] = old
    if pmap:
        bodies = raw["bodies"]
        for newp, oldp in pmap.items():
            for q in [q for q in list(bodies) if q == newp or q.startswith(newp + "::{")]:
                bodies[oldp + q[len(newp):]] = bodies.pop(q)
            rep["fns"].append((newp, oldp))
        _walk_rename_paths(raw["bodies"], pmap)
        _walk_rename_paths(raw.get("impls", []), pmap)
        for im in raw.get("impls", []):
            ms = im.get("methods") or {}
            for k, v in list(ms.items()):
                if v in pmap:
                    ms[k] = pmap[v]
    # ---- parameter names
    for path, ref in known["fns"].items():
        b = raw["bodies"].get(path)
        if b is None or b["argc"] != len(ref["args"]):
            continue
        if [b["locals"][i]["ty"] for i in range(0, b["argc"] + 1)] != ref["sig"]:
            continue
        for dbg in b.get("debug", []):
            p = dbg.get("place")
            if p and not p["p"] and 1 <= p["l"] <= b["argc"]:
                want = ref["args"][p["l"] - 1]
                if want and dbg["name"] != want:
                    rep["args"].append((path, dbg["name"], want))
                    dbg["name"] = want
    return rep


def flatten_new_structs(raw, known=None):
    """A refactoring that groups some fields of a struct S into a new private struct T (`sent_offset, acked_offset` ->
    `credit: CreditWindow { sent, acked }`) changes every place that names them.  When S's reference field list is obtained
    from its current one by replacing each field of a type the reference tree does not have by that type's own fields (same
    types, same order), the grouping is undone: `s.credit.sent` is read as `s.sent_offset` again, and literals of S are
    flattened.  Runs after helper inlining so that T's methods are seen at their call sites.  Returns [(S, field, T, {T field:
    reference field})]."""
    known = known if known is not None else load_known()
    rep = []
    if not known:
        return rep
    adts = raw["adts"]
    plans = {}
    for S, ref in known["adts"].items():
        a = adts.get(S)
        if a is None or a.get("kind") != "struct" or not a.get("variants"):
            continue
        cur = a["variants"][0]["fields"]
        if [[f["name"], f.get("ty")] for f in cur] == ref:
            continue
        flat = []       # (S field or None, T, T field name, type)
        ok = True
        for f in cur:
            T = f.get("ty")
            ta = adts.get(T)
            if T not in known["adts"] and ta is not None and ta.get("kind") == "struct" and ta.get("variants") and T.split("::")[0] == S.split("::")[0]:
                for tf in ta["variants"][0]["fields"]:
                    flat.append((f["name"], T, tf["name"], tf.get("ty")))
            else:
                flat.append((f["name"], None, None, f.get("ty")))
        if len(flat) != len(ref) or any(x[3] != rt for x, (_, rt) in zip(flat, ref)):
            continue
        # ungrouped fields must keep their names (a rename is canon.apply's business and has already been undone)
        if any(x[1] is None and x[0] != rn for x, (rn, _) in zip(flat, ref)):
            continue
        groups = {}
        for k, (x, (rn, _)) in enumerate(zip(flat, ref)):
            if x[1] is not None:
                groups.setdefault((x[0], x[1]), {})[x[2]] = (rn, k)
        if groups:
            plans[S] = (groups, ref)
    if not plans:
        return rep

    def fix_place(pl):
        p = pl["p"]
        out = []
        k = 0
        while k < len(p):
            e = p[k]
            if isinstance(e, dict) and e.get("a") in plans and "f" in e:
                groups, ref = plans[e["a"]]
                nxt = p[k + 1] if k + 1 < len(p) else None
                hit = None
                for (g, T), m in groups.items():
                    if e["f"] == g and isinstance(nxt, dict) and nxt.get("a") == T and nxt.get("f") in m:
                        hit = m[nxt["f"]]
                if hit is not None:
                    out.append({"f": hit[0], "i": hit[1], "a": e["a"]})
                    k += 2
                    continue
                names = [rn for rn, _ in ref]
                if e["f"] in names:
                    e = dict(e)
                    e["i"] = names.index(e["f"])
            out.append(e)
            k += 1
        pl["p"] = out

    def walk(x):
        if isinstance(x, dict):
            if "l" in x and "p" in x and isinstance(x.get("p"), list) and isinstance(x.get("l"), int):
                fix_place(x)
            for v in x.values():
                walk(v)
        elif isinstance(x, list):
            for v in x:
                walk(v)
    from . import inline
    for path, body in raw["bodies"].items():
        walk(body["blocks"])
        # literals of S: splice the literal of T in
        for blk in body["blocks"]:
            for st in blk["stmts"]:
                rv = st.get("rv") if st["k"] == "assign" else None
                if not (rv and rv.get("agg") == "adt" and rv.get("adt") in plans):
                    continue
                groups, ref = plans[rv["adt"]]
                fields, ops = [], []
                good = True
                for fn_, op in zip(rv["fields"], rv["ops"]):
                    grp = [(g, T) for (g, T) in groups if g == fn_]
                    if not grp:
                        fields.append(fn_)
                        ops.append(op)
                        continue
                    g, T = grp[0]
                    q = op.get("move") or op.get("copy")
                    d = inline._single_def(body, q["l"]) if q is not None and not q["p"] else None
                    if d is None or d[0] != "assign" or d[2]["rv"].get("agg") != "adt" or d[2]["rv"].get("adt") != T:
                        good = False
                        break
                    m = groups[(g, T)]
                    for tf, top in zip(d[2]["rv"]["fields"], d[2]["rv"]["ops"]):
                        fields.append(m[tf][0])
                        ops.append(copy.deepcopy(top))
                if good:
                    order = [rn for rn, _ in ref]
                    pairs = sorted(zip(fields, ops), key=lambda z: order.index(z[0]) if z[0] in order else 99)
                    rv["fields"] = [z[0] for z in pairs]
                    rv["ops"] = [z[1] for z in pairs]
    for S, (groups, ref) in plans.items():
        old = {f["name"]: f for f in adts[S]["variants"][0]["fields"]}
        adts[S]["variants"][0]["fields"] = [dict(old.get(rn, {}), name=rn, ty=rt) for rn, rt in ref]
        for (g, T), m in groups.items():
            rep.append((S, g, T, {k: v[0] for k, v in m.items()}))
    return rep
