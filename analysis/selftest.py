"""Two-way test of the checker on the seeded corpus (thorough tier).

corpus/<PROP>.json : list of {name, kind: mutant|benign|control, edits: [{file, old, new}], expect: {rule, fn}}
Each entry is applied to a scratch copy of /repo's *current* tree (outside /repo and /verif), the rules
are re-run on its MIR, and the result must be a violation carrying the expected rule (mutant) or silence
(benign).  Entries whose `old` text no longer occurs are skipped and counted.
"""
import importlib
import json
import os
import shutil
import subprocess
import tempfile
from concurrent.futures import ThreadPoolExecutor

from . import build, mir, report

VERIF = build.VERIF


def _copy_repo(dst):
    subprocess.check_call(["rsync", "-a", "--exclude", "target", "--exclude", ".git", build.REPO + "/", dst + "/"])


def _apply(root, edits):
    for e in edits:
        p = os.path.join(root, e["file"])
        with open(p) as f:
            s = f.read()
        if e["old"] not in s:
            return False
        s = s.replace(e["old"], e["new"], e.get("count", 1))
        with open(p, "w") as f:
            f.write(s)
    return True


def _run_entry(prop, entry, baseline_keys):
    tmp = tempfile.mkdtemp(prefix="repe-selftest-", dir=os.environ.get("REPE_SCRATCH", "/tmp"))
    try:
        _copy_repo(tmp)
        if not _apply(tmp, entry["edits"]):
            return entry, "skipped", []
        tdir = os.path.join(build.CACHE, "target-selftest-%d" % (abs(hash(entry["name"])) % 4))
        try:
            fpath, _ = build.build_facts(build.FULL, repo=tmp)
        except SystemExit as e:
            return entry, "build-failed: %s" % e, []
        facts = mir.Facts(fpath)
        R = report.Report(prop, "thorough", "selftest")
        mod = importlib.import_module("rules." + prop)
        try:
            mod.run(facts, R)
        except mir.AnchorMissing as e:
            R.bad("anchor-resolution", "<crate>", "anchor", str(e))
        except Exception as e:
            R.bad("anchor-resolution", "<crate>", "rule-shape:" + type(e).__name__, str(e))
        new = [v for v in R.violations if v["key"] not in baseline_keys]
        return entry, "ran", new
    finally:
        shutil.rmtree(tmp, ignore_errors=True)


def run(prop, baseline_keys=()):
    path = os.path.join(VERIF, "corpus", prop + ".json")
    res = {"lines": [], "failed": False, "mutants_detected": 0, "mutants_total": 0, "benign_silent": 0,
           "benign_total": 0, "skipped": 0}
    if not os.path.exists(path):
        res["lines"].append("SELFTEST property=%s no corpus" % prop)
        return res
    with open(path) as f:
        corpus = json.load(f)
    # builds share one cargo target dir (cargo locks it), so run sequentially; each is ~4 s
    for entry in corpus:
        entry, status, new = _run_entry(prop, entry, set(baseline_keys))
        name = entry["name"]
        if status == "skipped":
            res["skipped"] += 1
            res["lines"].append("SELFTEST %s %s skipped (edit no longer applies)" % (prop, name))
            continue
        if status != "ran":
            res["failed"] = True
            res["lines"].append("SELFTEST %s %s BROKEN %s" % (prop, name, status))
            continue
        if entry["kind"] == "mutant":
            res["mutants_total"] += 1
            exp = entry["expect"]
            hit = [v for v in new if v["rule"] == exp["rule"] and (not exp.get("fn") or v["fn"] == exp["fn"])]
            if hit:
                res["mutants_detected"] += 1
                res["lines"].append("SELFTEST %s mutant=%s detected rule=%s" % (prop, name, exp["rule"]))
            else:
                res["failed"] = True
                res["lines"].append("SELFTEST %s mutant=%s MISSED (expected rule=%s fn=%s; got %s)" % (
                    prop, name, exp["rule"], exp.get("fn"), [v["key"] for v in new]))
        else:
            res["benign_total"] += 1
            if not new:
                res["benign_silent"] += 1
                res["lines"].append("SELFTEST %s benign=%s silent" % (prop, name))
            else:
                res["failed"] = True
                res["lines"].append("SELFTEST %s benign=%s FALSE-ALARM %s" % (prop, name, [v["key"] for v in new]))
    return res
