"""Rule-instance bookkeeping, violation keys, known findings and evidence writing."""
import json
import os
import time

VERIF = os.path.dirname(os.path.dirname(os.path.abspath(__file__)))


class Report:
    def __init__(self, prop, tier, config):
        self.prop = prop
        self.tier = tier
        self.config = config
        self.instances = []   # dicts
        self.violations = []  # dicts with key
        self.floors = []
        self.undecided = []
        self.notes = []
        self.exceptions_used = []

    # an evaluated rule instance
    def ok(self, rule, fn, what, site=None, detail=None, trivial=False):
        self.instances.append({
            "rule": rule, "fn": fn, "what": what, "site": site, "verdict": "holds",
            "detail": detail, "trivial": trivial, "config": self.config,
        })

    def bad(self, rule, fn, what, msg, site=None, path=None):
        key = "%s/%s/%s/%s" % (self.prop, rule, fn, what)
        v = {"key": key, "rule": rule, "fn": fn, "what": what, "msg": msg, "site": site,
             "path": path, "config": self.config, "property": self.prop}
        self.violations.append(v)
        self.instances.append({"rule": rule, "fn": fn, "what": what, "site": site,
                               "verdict": "VIOLATED", "detail": msg, "trivial": False, "config": self.config})

    def check(self, cond, rule, fn, what, msg, site=None, detail=None, path=None):
        if cond:
            self.ok(rule, fn, what, site, detail)
        else:
            self.bad(rule, fn, what, msg, site, path)
        return cond

    def floor(self, rule, found, minimum, what="instances"):
        self.floors.append({"rule": rule, "found": found, "floor": minimum, "what": what})
        if found < minimum:
            self.bad(rule, "<crate>", "floor:" + what,
                     "rule matched %d %s, fewer than the %d confirmed by hand on the reference tree "
                     "(anchor moved or rule went vacuous)" % (found, what, minimum))

    def exact(self, rule, found, expected, what):
        self.floors.append({"rule": rule, "found": found, "expected": expected, "what": what})
        if found != expected:
            self.bad(rule, "<crate>", "count:" + what,
                     "rule expected exactly %d %s, found %d" % (expected, what, found))

    def undecide(self, rule, fn, why):
        """The anchored function no longer has any shape the rule can decide: fail closed (a silent
        'undecided' let seed C14-1 through).  Reported under anchor-resolution, keyed by rule+fn."""
        self.undecided.append({"rule": rule, "fn": fn, "why": why, "config": self.config})
        self.bad("anchor-resolution", fn, "undecidable-shape:" + rule,
                 "rule %s cannot decide %s on this tree: %s" % (rule, fn, why))

    def exception(self, rule, symbol, reason):
        self.exceptions_used.append({"rule": rule, "symbol": symbol, "reason": reason})

    def note(self, s):
        self.notes.append(s)


def load_known():
    p = os.path.join(VERIF, "known_findings.json")
    if not os.path.exists(p):
        return {"known": [], "fixed": []}
    with open(p) as f:
        return json.load(f)


def merge_reports(reports):
    """Combine per-config reports; violations de-duplicated by key (configs accumulated)."""
    by_key = {}
    for r in reports:
        for v in r.violations:
            if v["key"] in by_key:
                by_key[v["key"]].setdefault("configs", []).append(v["config"])
            else:
                v = dict(v)
                v["configs"] = [v["config"]]
                by_key[v["key"]] = v
    return list(by_key.values())


def write_evidence(prop, tier, reports, violations, known_hit, wall_s, meta, extra_cov=None, scratch=False):
    inst = [i for r in reports for i in r.instances]
    nontriv = {(i["rule"], i["fn"], i["what"]) for i in inst if not i["trivial"]}
    rules = sorted({i["rule"] for i in inst})
    samples = []
    seen_rules = set()
    for i in inst:
        if i["rule"] not in seen_rules or i["verdict"] != "holds":
            seen_rules.add(i["rule"])
            samples.append({k: i[k] for k in ("rule", "fn", "what", "site", "verdict", "detail") if i.get(k) is not None})
    samples = samples[:60]
    cov = {
        "evaluations": len(inst),
        "distinct_nontrivial": len(nontriv),
        "rule": "Static analysis of rustc MIR (mir_built) of /repo's working tree. One evaluation = one rule "
                "instance (rule x function x site x feature-config) decided; distinct_nontrivial = distinct "
                "(rule, function, site/what) triples at which the rule's precondition held and something was "
                "decided. Rules applied: " + ", ".join(rules),
        "explanation": meta.get("explanation", ""),
        "samples": samples,
        "exhaustive": True,
        "configs": meta.get("configs"),
        "bodies_analysed": meta.get("bodies"),
        "floors": [f for r in reports[:1] for f in r.floors],
        "exceptions_used": [e for r in reports[:1] for e in r.exceptions_used],
        "undecided": [u for r in reports for u in r.undecided],
        "notes": sorted({n for r in reports for n in r.notes}),
        "known_findings_matched": known_hit,
        "facts": meta.get("facts"),
    }
    if extra_cov:
        cov.update(extra_cov)
    ev = {
        "property_id": prop,
        "tier": tier,
        "seed": int(os.environ.get("VERIF_SEED", "0") or 0),
        "level": "other",
        "coverage": cov,
        "assumptions": meta.get("assumptions", []),
        "wall_s": round(wall_s, 2),
        "violations": len(violations),
    }
    edir = os.path.join(VERIF, ".cache", "scratch-evidence") if scratch else os.path.join(VERIF, "evidence")
    os.makedirs(edir, exist_ok=True)
    p = os.path.join(edir, prop + ".json")
    tmp = p + ".tmp"
    with open(tmp, "w") as f:
        json.dump(ev, f, indent=1, default=str)
    os.replace(tmp, p)
    return p
