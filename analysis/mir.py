"""Loader and basic graph analyses over the driver's fact files (A1-A4)."""
import json
import os
from collections import defaultdict, deque


class AnchorMissing(Exception):
    """A function/type/field a rule needs cannot be resolved: the check fails closed."""


def place_local(p):
    return p["l"]


def place_is_local(p):
    return not p["p"]


def op_place(op):
    if "copy" in op:
        return op["copy"]
    if "move" in op:
        return op["move"]
    return None


def op_const(op):
    return op.get("const")


def op_const_int(op):
    c = op.get("const")
    if c is not None and "v" in c:
        return c["v"]
    return None


def proj_fields(p):
    """Field names along a place's projection (ignores deref/downcast)."""
    return [e["f"] for e in p["p"] if isinstance(e, dict) and "f" in e]


def fmt_place(p):
    s = "_%d" % p["l"]
    for e in p["p"]:
        if e == "deref":
            s = "(*%s)" % s
        elif "f" in e:
            s += "." + e["f"]
        elif "variant" in e:
            s = "(%s as %s)" % (s, e["variant"])
        elif "index" in e:
            s += "[_%d]" % e["index"]
        else:
            s += "[..]"
    return s


def fmt_op(op):
    p = op_place(op)
    if p is not None:
        return ("move " if "move" in op else "") + fmt_place(p)
    c = op.get("const")
    if c is not None:
        if "fn" in c:
            return "fn " + c["fn"]["path"]
        if "v" in c:
            return (c.get("name") or "") + "=" + str(c["v"]) if c.get("name") else str(c["v"])
        if "str" in c:
            return json.dumps(c["str"])
        return c.get("name") or ("const " + c["ty"])
    return "?"


class Body:
    def __init__(self, path, d):
        self.path = path
        self.d = d
        self.kind = d["kind"]
        self.blocks = d["blocks"]
        self.locals = d["locals"]
        self.argc = d["argc"]
        self.span = d["span"]
        self.parent = d.get("parent")
        self.name = d.get("name") or path.rsplit("::", 1)[-1]
        self._succ = None
        self._succ_u = None
        self._pred = {}
        self._dom = {}
        self._defs = None

    # ---- CFG ------------------------------------------------------------
    def term(self, bb):
        return self.blocks[bb]["term"]

    def _edges(self, bb, unwind):
        t = self.blocks[bb]["term"]
        k = t["k"]
        out = []
        if k in ("goto", "false_edge", "false_unwind"):
            out.append(t["target"])
            # imaginary edges of false_edge are not real control flow
        elif k == "switch":
            out.extend(b for _, b in t["targets"])
            out.append(t["otherwise"])
        elif k in ("drop", "assert"):
            out.append(t["target"])
        elif k == "call":
            if t["target"] is not None:
                out.append(t["target"])
        elif k == "yield":
            out.append(t["resume"])
            if unwind and t.get("drop") is not None:
                out.append(t["drop"])
        if unwind and isinstance(t.get("unwind"), int):
            out.append(t["unwind"])
        seen = []
        for b in out:
            if b not in seen:
                seen.append(b)
        return seen

    def succs(self, bb, unwind=False):
        if unwind:
            if self._succ_u is None:
                self._succ_u = [self._edges(i, True) for i in range(len(self.blocks))]
            return self._succ_u[bb]
        if self._succ is None:
            self._succ = [self._edges(i, False) for i in range(len(self.blocks))]
        return self._succ[bb]

    def preds(self, unwind=False):
        if unwind not in self._pred:
            p = defaultdict(list)
            for i in range(len(self.blocks)):
                for s in self.succs(i, unwind):
                    p[s].append(i)
            self._pred[unwind] = p
        return self._pred[unwind]

    def reachable(self, starts=(0,), unwind=False, avoid=(), avoid_edges=()):
        """Blocks reachable from `starts` without entering `avoid` blocks or crossing `avoid_edges`."""
        avoid = set(avoid)
        avoid_edges = set(avoid_edges)
        seen = set()
        dq = deque(s for s in starts if s not in avoid)
        seen.update(dq)
        while dq:
            b = dq.popleft()
            for s in self.succs(b, unwind):
                if s in avoid or (b, s) in avoid_edges or s in seen:
                    continue
                seen.add(s)
                dq.append(s)
        return seen

    def live_blocks(self, unwind=False):
        return self.reachable((0,), unwind)

    def return_blocks(self):
        return [i for i, b in enumerate(self.blocks) if b["term"]["k"] == "return"]

    def dominators(self, unwind=False):
        """Immediate-dominator map on blocks (Cooper-Harvey-Kennedy)."""
        if unwind in self._dom:
            return self._dom[unwind]
        order = []
        seen = set()
        stack = [(0, iter(self.succs(0, unwind)))]
        seen.add(0)
        while stack:
            n, it = stack[-1]
            adv = False
            for s in it:
                if s not in seen:
                    seen.add(s)
                    stack.append((s, iter(self.succs(s, unwind))))
                    adv = True
                    break
            if not adv:
                order.append(n)
                stack.pop()
        rpo = list(reversed(order))
        idx = {n: i for i, n in enumerate(rpo)}
        preds = self.preds(unwind)
        idom = {0: 0}
        changed = True
        while changed:
            changed = False
            for n in rpo[1:]:
                new = None
                for p in preds[n]:
                    if p in idom:
                        if new is None:
                            new = p
                        else:
                            a, b = p, new
                            while a != b:
                                while idx[a] > idx[b]:
                                    a = idom[a]
                                while idx[b] > idx[a]:
                                    b = idom[b]
                            new = a
                if new is not None and idom.get(n) != new:
                    idom[n] = new
                    changed = True
        self._dom[unwind] = idom
        return idom

    def dominates(self, a, b, unwind=False):
        idom = self.dominators(unwind)
        if b not in idom or a not in idom:
            return False
        while True:
            if a == b:
                return True
            if b == 0:
                return False
            b = idom[b]

    def edge_dominates(self, s, t, b, unwind=False):
        """Does the CFG edge s->t dominate block b?  (every path entry->b crosses s->t)"""
        if b not in self.live_blocks(unwind):
            return True
        r = self.reachable((0,), unwind, avoid_edges=[(s, t)])
        return b not in r

    # ---- calls & statements --------------------------------------------
    def calls(self, live_only=True, unwind=False):
        live = self.live_blocks(unwind) if live_only else None
        for i, b in enumerate(self.blocks):
            if live is not None and i not in live:
                continue
            t = b["term"]
            if t["k"] == "call":
                yield i, t

    def call_sites(self, pred, unwind=False):
        return [(i, t) for i, t in self.calls(unwind=unwind) if pred(t["callee"])]

    def assigns(self, unwind=False):
        live = self.live_blocks(unwind)
        for i, b in enumerate(self.blocks):
            if i not in live:
                continue
            for j, s in enumerate(b["stmts"]):
                if s["k"] == "assign":
                    yield i, j, s

    def reaching_defs(self):
        """block -> {local -> frozenset of definition points (bb, idx)} reaching the block's entry, for whole-local
        definitions in live blocks (idx == len(stmts) for a call destination; (-1, a) for argument a)."""
        rd = getattr(self, "_rd", None)
        if rd is not None:
            return rd
        live = self.live_blocks()
        gen = {}
        for i in live:
            b = self.blocks[i]
            g = {}
            for j, s in enumerate(b["stmts"]):
                if s["k"] == "assign" and not s["place"]["p"]:
                    g[s["place"]["l"]] = (i, j)
            t = b["term"]
            cd = None
            if t["k"] == "call" and not t["dest"]["p"]:
                cd = (t["dest"]["l"], (i, len(b["stmts"])), t.get("target"))
            gen[i] = (g, cd)
        ins = {i: None for i in live}
        ins[0] = {a: frozenset([(-1, a)]) for a in range(1, self.argc + 1)}
        work = deque([0])
        while work:
            i = work.popleft()
            cur = ins[i]
            g, cd = gen[i]
            out = dict(cur)
            for l, pt in g.items():
                out[l] = frozenset([pt])
            for sc in self.succs(i, True):
                if sc not in live:
                    continue
                o = out
                if cd is not None and sc == cd[2]:
                    o = dict(out)
                    o[cd[0]] = frozenset([cd[1]])
                old = ins[sc]
                if old is None:
                    ins[sc] = dict(o)
                    work.append(sc)
                    continue
                changed = False
                for l, v in o.items():
                    if l not in old:
                        old[l] = v
                        changed = True
                    elif not v <= old[l]:
                        old[l] = old[l] | v
                        changed = True
                if changed:
                    work.append(sc)
        self._rd = {i: (v or {}) for i, v in ins.items()}
        return self._rd

    def reaching_at(self, local, bb, idx):
        """definition points of `local` reaching program point (bb, idx) (before statement idx)"""
        last = None
        for j, s in enumerate(self.blocks[bb]["stmts"][:idx]):
            if s["k"] == "assign" and not s["place"]["p"] and s["place"]["l"] == local:
                last = (bb, j)
        if last is not None:
            return frozenset([last])
        return self.reaching_defs().get(bb, {}).get(local, frozenset())

    def defs_of(self, local):
        """All definitions of a whole local: ('assign', bb, idx, rv) | ('call', bb, term) | ('arg',)"""
        if self._defs is None:
            d = defaultdict(list)
            for i, b in enumerate(self.blocks):
                for j, s in enumerate(b["stmts"]):
                    if s["k"] == "assign" and not s["place"]["p"]:
                        d[s["place"]["l"]].append(("assign", i, j, s["rv"]))
                t = b["term"]
                if t["k"] == "call" and not t["dest"]["p"]:
                    d[t["dest"]["l"]].append(("call", i, t))
                if t["k"] == "yield":
                    pass
            for a in range(1, self.argc + 1):
                d[a].append(("arg", a))
            # blocks duplicated by jump threading (analysis/inline.py) repeat definitions verbatim: a copy of a
            # definition is the same definition, not a second one (keep the live one; the original may have become
            # unreachable when every path was specialised)
            if any(b.get("threaded") for b in self.blocks):
                live = self.live_blocks()
                for l, ds in d.items():
                    if len(ds) < 2:
                        continue
                    groups = {}
                    order = []
                    for x in ds:
                        if x[0] == "arg":
                            sig = ("arg",)
                        elif x[0] == "assign":
                            sig = ("a", json.dumps(x[3], sort_keys=True))
                        else:
                            sig = ("c", json.dumps({"c": x[2]["callee"]["path"], "a": x[2]["args"]}, sort_keys=True))
                        if sig not in groups:
                            groups[sig] = []
                            order.append(sig)
                        groups[sig].append(x)
                    keep = []
                    for sig in order:
                        g = groups[sig]
                        if len(g) == 1 or not any(x[0] != "arg" and self.blocks[x[1]].get("threaded") for x in g):
                            keep.extend(g)
                            continue
                        g.sort(key=lambda x: (x[1] not in live, bool(self.blocks[x[1]].get("threaded"))))
                        keep.append(g[0])
                    d[l] = keep
            self._defs = d
        return self._defs.get(local, [])

    def local_ty(self, l):
        return self.locals[l]["ty"]

    def debug_name(self, l):
        for v in self.d.get("debug", []):
            p = v.get("place")
            if p and p["l"] == l and not p["p"]:
                return v["name"]
        return None

    def locals_named(self, name):
        out = []
        for v in self.d.get("debug", []):
            p = v.get("place")
            if v["name"] == name and p and not p["p"]:
                out.append(p["l"])
        return out

    def span_of(self, bb, idx=None):
        b = self.blocks[bb]
        if idx is not None and idx < len(b["stmts"]):
            return b["stmts"][idx].get("span", self.span)
        return b["term"].get("span", self.span)


def callee_matches(callee, *pats):
    """Match a resolved callee against patterns.  A pattern matches if it equals the resolved
    path, the declared path, or is a '::'-aligned suffix of either."""
    for pat in pats:
        for key in ("path", "decl"):
            v = callee.get(key) or ""
            if v == pat or v.endswith("::" + pat):
                return True
    return False


def _decide_switches(path, raw_body):
    """Rewrite `switch discriminant(x)` into its one feasible arm when the single definition of x reaching the switch is an
    aggregate of a known variant (what remains after desugaring / inlining / threading).  Returns the number rewritten."""
    from .sym import Sym
    total = 0
    for _round in range(6):
        b = Body(path, raw_body)
        s = Sym(b)
        live = b.live_blocks()
        todo = []
        for i in sorted(live):
            t = b.term(i)
            if t["k"] != "switch" or t.get("threaded_switch") or t.get("on_ty") == "bool":
                continue
            e = s.switch_on(i)
            if e[0] != "discr" or e[1][0] != "agg" or not e[1][2]:
                continue
            p = op_place(t["on"])
            vm = None
            if p is not None:
                for dd in b.defs_of(p["l"]):
                    if dd[0] == "assign" and "discr" in dd[3] and dd[3].get("variants"):
                        vm = {int(k): v for k, v in dd[3]["variants"].items()}
            if not vm:
                continue
            vals = [k for k, v in vm.items() if v == e[1][2]]
            if len(vals) != 1:
                continue
            tgt = dict((v, x) for v, x in t["targets"]).get(vals[0], t["otherwise"])
            todo.append((i, vals[0], tgt))
        if not todo:
            break
        raw_body["blocks"].append({"cleanup": False, "stmts": [], "term": {"k": "unreachable"}, "decided": True})
        dead = len(raw_body["blocks"]) - 1
        for i, v, tgt in todo:
            t = raw_body["blocks"][i]["term"]
            raw_body["blocks"][i]["term"] = {"k": "switch", "on": t["on"], "on_ty": t.get("on_ty"), "targets": [[v, tgt]], "otherwise": dead, "span": t.get("span"),
                                             "threaded_switch": True, "decided": True}
        total += len(todo)
    return total


_RULE_WORDS = None


def _rule_words():
    """identifiers that occur in the rule sources: a function whose name is among them may be an anchor"""
    global _RULE_WORDS
    if _RULE_WORDS is None:
        import glob, re
        root = os.path.dirname(os.path.dirname(os.path.abspath(__file__)))
        words = set()
        for f in glob.glob(os.path.join(root, "rules", "*.py")) + [os.path.join(root, "check")]:
            try:
                words |= set(re.findall(r"[A-Za-z_][A-Za-z0-9_]*", open(f).read()))
            except OSError:
                pass
        _RULE_WORDS = words
    return _RULE_WORDS


class Facts:
    def __init__(self, path):
        with open(path) as f:
            d = json.load(f)
        self.raw = d
        # functions the reference tree does not have are inlined at their call sites (analysis/inline.py)
        from . import inline, canon
        changed = canon.changed_functions(d) if os.environ.get("REPE_NO_CANON") != "1" else set()
        self.changed_functions = changed
        self.canon_report = canon.apply(d) if os.environ.get("REPE_NO_CANON") != "1" else {"fields": [], "args": [], "fns": []}
        # Option/Result combinators that a changed function did not use on the reference tree become the match they stand for
        self.desugared = []
        if changed and os.environ.get("REPE_NO_INLINE") != "1" and os.environ.get("REPE_NO_DESUGAR") != "1":
            from . import combinators
            shapes_ = canon.load_known() or {}
            if "combinators" in shapes_:
                self.desugared = combinators.apply(d, canon.changed_functions(d), shapes_["combinators"])
        # a reference-tree helper that no rule names and whose body changed is treated like a new helper: callers are judged
        # on what it does now, not on what the rules' derived summaries assumed of the reference body
        known_ = inline.load_known()
        self.reinlined = []
        if known_ is not None and changed and os.environ.get("REPE_NO_INLINE") != "1":
            post = canon.changed_functions(d)
            names_ = _rule_words()
            drop = {p_ for p_ in post if p_ in known_ and "{closure" not in p_ and p_.rsplit("::", 1)[-1] not in names_
                    and d["bodies"][p_]["kind"] in ("fn", "method") and not p_.startswith("<")}
            if drop:
                known_ = set(known_) - drop
                self.reinlined = sorted(drop)
        self.inline_report = inline.apply(d, known_) if os.environ.get("REPE_NO_INLINE") != "1" else {"new_functions": [], "inlined": [], "skipped": []}
        # ... and a changed reference function that newly delegates to another reference function sees that function's body
        self.new_edges = []
        if known_ is not None and changed and os.environ.get("REPE_NO_INLINE") != "1":
            shapes2_ = canon.load_known() or {}
            if "callees" in shapes2_:
                self.new_edges = inline.inline_new_edges(d, shapes2_["callees"], canon.changed_functions(d), set(known_) | set(self.reinlined), set(self.reinlined), _rule_words())
                self.inline_report["inlined"] = list(self.inline_report.get("inlined", [])) + self.new_edges
        self.devirtualised = 0
        if self.inline_report.get("inlined"):
            self.devirtualised = inline.devirtualise_polls(d, sorted({c_ for _, c_ in self.inline_report["inlined"]}))
        # fields of a reference struct grouped into a new private struct are read under their reference names again
        self.flattened = canon.flatten_new_structs(d) if (changed and os.environ.get("REPE_NO_CANON") != "1") else []
        self.closure_calls = []
        if self.inline_report.get("inlined") and os.environ.get("REPE_NO_DESUGAR") != "1":
            from . import combinators as _comb
            self.closure_calls = _comb.resolve_closure_calls(d, sorted({c_ for _, c_ in self.inline_report["inlined"]}))
        self.dropped_closures = []
        if (self.closure_calls or self.desugared) and os.environ.get("REPE_NO_DESUGAR") != "1":
            from . import combinators as _comb
            cands_ = {c_ for _, c_ in self.closure_calls} | set(_comb.INLINED_CLOSURES)
            self.dropped_closures = _comb.drop_orphan_closures(d, cands_)
        # functions that differ from the reference tree get one more normalisation: intra-procedural jump threading of
        # known Result/Option variants (error handling folded into one local that is tested later, etc.)
        self.threaded = {}
        if changed and os.environ.get("REPE_NO_INLINE") != "1":
            for p_ in sorted(changed):
                b_ = d["bodies"].get(p_)
                if b_ is not None and len(b_["blocks"]) < 3000:
                    n_ = inline.thread_known_variants(b_)
                    if n_:
                        self.threaded[p_] = n_
        # ... and switches that test a value whose only reaching definition builds a known variant are decided
        self.decided = {}
        if changed and os.environ.get("REPE_NO_INLINE") != "1":
            touched = set(self.threaded) | {p_ for p_, _ in self.desugared} | {c_ for _, c_ in self.inline_report.get("inlined", [])}
            for p_ in sorted(touched):
                if p_ in d["bodies"]:
                    n_ = _decide_switches(p_, d["bodies"][p_])
                    if n_:
                        self.decided[p_] = n_
        self.features = d["features"]
        self.adts = d["adts"]
        self.impls = d["impls"]
        self.traits = d["traits"]
        self.consts = d["consts"]
        self.missing = d["missing_bodies"]
        self.bodies = {k: Body(k, v) for k, v in d["bodies"].items()}
        for p_ in (set(changed) | (canon.changed_functions(d) if changed else set())):
            if p_ in self.bodies:
                self.bodies[p_].changed = True     # source-level variables may be resolved by reaching definitions here (analysis/sym.py)
        self._callers = None

    def body(self, path):
        b = self.bodies.get(path)
        if b is None:
            raise AnchorMissing("function %s not found in the analysed crate" % path)
        return b

    def has_body(self, path):
        return path in self.bodies

    def bodies_matching(self, pred):
        return [b for p, b in self.bodies.items() if pred(p)]

    def children(self, path):
        """closures / coroutine bodies nested (transitively) in `path`."""
        pre = path + "::{"
        return [b for p, b in self.bodies.items() if p.startswith(pre)]

    def family(self, path):
        return [self.body(path)] + self.children(path)

    def adt(self, path):
        a = self.adts.get(path)
        if a is None:
            raise AnchorMissing("type %s not found" % path)
        return a

    def adt_fields(self, path):
        a = self.adt(path)
        return [f["name"] for f in a["variants"][0]["fields"]]

    def require_field(self, adt, field):
        if field not in self.adt_fields(adt):
            raise AnchorMissing("field %s.%s not found" % (adt, field))

    def const_value(self, path):
        c = self.consts.get(path)
        if c is None or "v" not in c:
            raise AnchorMissing("constant %s not found / not evaluated" % path)
        return c["v"]

    def impls_of(self, trait):
        return [i for i in self.impls if i["trait"] == trait]

    def callers(self):
        """map resolved callee path -> list of (Body, bb, term) over live blocks of every body"""
        if self._callers is None:
            m = defaultdict(list)
            for b in self.bodies.values():
                for i, t in b.calls():
                    m[t["callee"]["path"]].append((b, i, t))
                    if t["callee"]["decl"] != t["callee"]["path"]:
                        m[t["callee"]["decl"]].append((b, i, t))
            self._callers = m
        return self._callers

    def calls_to(self, *pats):
        out = []
        for b in self.bodies.values():
            for i, t in b.calls():
                if callee_matches(t["callee"], *pats):
                    out.append((b, i, t))
        return out

    def fn_refs(self, *pats):
        """Sites where a fn item matching pats is mentioned as a value (not called)."""
        out = []
        for b in self.bodies.values():
            for i, j, s in b.assigns():
                for op in rv_operands(s["rv"]):
                    c = op.get("const")
                    if c and "fn" in c and callee_matches(c["fn"], *pats):
                        out.append((b, i, j))
            for i, t in b.calls():
                for op in t["args"]:
                    c = op.get("const")
                    if c and "fn" in c and callee_matches(c["fn"], *pats):
                        out.append((b, i, None))
        return out


def rv_operands(rv):
    if "use" in rv:
        return [rv["use"]]
    if "repeat" in rv:
        return [rv["repeat"]]
    if "cast" in rv:
        return [rv["cast"]]
    if "bin" in rv:
        return [rv["a"], rv["b"]]
    if "un" in rv:
        return [rv["a"]]
    if "agg" in rv:
        return list(rv["ops"])
    return []


def rv_places_read(rv):
    out = [op_place(o) for o in rv_operands(rv)]
    out = [p for p in out if p is not None]
    for k in ("ref", "rawptr", "discr"):
        if k in rv:
            out.append(rv[k])
    return out
