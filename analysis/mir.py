"""Loader and basic graph analyses over the driver's fact files (A1-A4)."""
import json
import os
from collections import defaultdict, deque


class AnchorMissing(Exception):
    """A function/type/field a rule needs cannot be resolved: the check fails closed."""


def place_local(p):
    return p["l"]


def place_is_local(p):
    return not p["p"]


def op_place(op):
    if "copy" in op:
        return op["copy"]
    if "move" in op:
        return op["move"]
    return None


def op_const(op):
    return op.get("const")


def op_const_int(op):
    c = op.get("const")
    if c is not None and "v" in c:
        return c["v"]
    return None


def proj_fields(p):
    """Field names along a place's projection (ignores deref/downcast)."""
    return [e["f"] for e in p["p"] if isinstance(e, dict) and "f" in e]


def fmt_place(p):
    s = "_%d" % p["l"]
    for e in p["p"]:
        if e == "deref":
            s = "(*%s)" % s
        elif "f" in e:
            s += "." + e["f"]
        elif "variant" in e:
            s = "(%s as %s)" % (s, e["variant"])
        elif "index" in e:
            s += "[_%d]" % e["index"]
        else:
            s += "[..]"
    return s


def fmt_op(op):
    p = op_place(op)
    if p is not None:
        return ("move " if "move" in op else "") + fmt_place(p)
    c = op.get("const")
    if c is not None:
        if "fn" in c:
            return "fn " + c["fn"]["path"]
        if "v" in c:
            return (c.get("name") or "") + "=" + str(c["v"]) if c.get("name") else str(c["v"])
        if "str" in c:
            return json.dumps(c["str"])
        return c.get("name") or ("const " + c["ty"])
    return "?"


class Body:
    def __init__(self, path, d):
        self.path = path
        self.d = d
        self.kind = d["kind"]
        self.blocks = d["blocks"]
        self.locals = d["locals"]
        self.argc = d["argc"]
        self.span = d["span"]
        self.parent = d.get("parent")
        self.name = d.get("name") or path.rsplit("::", 1)[-1]
        self._succ = None
        self._succ_u = None
        self._pred = {}
        self._dom = {}
        self._defs = None

    # ---- CFG ------------------------------------------------------------
    def term(self, bb):
        return self.blocks[bb]["term"]

    def _edges(self, bb, unwind):
        t = self.blocks[bb]["term"]
        k = t["k"]
        out = []
        if k in ("goto", "false_edge", "false_unwind"):
            out.append(t["target"])
            # imaginary edges of false_edge are not real control flow
        elif k == "switch":
            out.extend(b for _, b in t["targets"])
            out.append(t["otherwise"])
        elif k in ("drop", "assert"):
            out.append(t["target"])
        elif k == "call":
            if t["target"] is not None:
                out.append(t["target"])
        elif k == "yield":
            out.append(t["resume"])
            if unwind and t.get("drop") is not None:
                out.append(t["drop"])
        if unwind and isinstance(t.get("unwind"), int):
            out.append(t["unwind"])
        seen = []
        for b in out:
            if b not in seen:
                seen.append(b)
        return seen

    def succs(self, bb, unwind=False):
        if unwind:
            if self._succ_u is None:
                self._succ_u = [self._edges(i, True) for i in range(len(self.blocks))]
            return self._succ_u[bb]
        if self._succ is None:
            self._succ = [self._edges(i, False) for i in range(len(self.blocks))]
        return self._succ[bb]

    def preds(self, unwind=False):
        if unwind not in self._pred:
            p = defaultdict(list)
            for i in range(len(self.blocks)):
                for s in self.succs(i, unwind):
                    p[s].append(i)
            self._pred[unwind] = p
        return self._pred[unwind]

    def reachable(self, starts=(0,), unwind=False, avoid=(), avoid_edges=()):
        """Blocks reachable from `starts` without entering `avoid` blocks or crossing `avoid_edges`."""
        avoid = set(avoid)
        avoid_edges = set(avoid_edges)
        seen = set()
        dq = deque(s for s in starts if s not in avoid)
        seen.update(dq)
        while dq:
            b = dq.popleft()
            for s in self.succs(b, unwind):
                if s in avoid or (b, s) in avoid_edges or s in seen:
                    continue
                seen.add(s)
                dq.append(s)
        return seen

    def live_blocks(self, unwind=False):
        return self.reachable((0,), unwind)

    def return_blocks(self):
        return [i for i, b in enumerate(self.blocks) if b["term"]["k"] == "return"]

    def dominators(self, unwind=False):
        """Immediate-dominator map on blocks (Cooper-Harvey-Kennedy)."""
        if unwind in self._dom:
            return self._dom[unwind]
        order = []
        seen = set()
        stack = [(0, iter(self.succs(0, unwind)))]
        seen.add(0)
        while stack:
            n, it = stack[-1]
            adv = False
            for s in it:
                if s not in seen:
                    seen.add(s)
                    stack.append((s, iter(self.succs(s, unwind))))
                    adv = True
                    break
            if not adv:
                order.append(n)
                stack.pop()
        rpo = list(reversed(order))
        idx = {n: i for i, n in enumerate(rpo)}
        preds = self.preds(unwind)
        idom = {0: 0}
        changed = True
        while changed:
            changed = False
            for n in rpo[1:]:
                new = None
                for p in preds[n]:
                    if p in idom:
                        if new is None:
                            new = p
                        else:
                            a, b = p, new
                            while a != b:
                                while idx[a] > idx[b]:
                                    a = idom[a]
                                while idx[b] > idx[a]:
                                    b = idom[b]
                            new = a
                if new is not None and idom.get(n) != new:
                    idom[n] = new
                    changed = True
        self._dom[unwind] = idom
        return idom

    def dominates(self, a, b, unwind=False):
        idom = self.dominators(unwind)
        if b not in idom or a not in idom:
            return False
        while True:
            if a == b:
                return True
            if b == 0:
                return False
            b = idom[b]

    def edge_dominates(self, s, t, b, unwind=False):
        """Does the CFG edge s->t dominate block b?  (every path entry->b crosses s->t)"""
        if b not in self.live_blocks(unwind):
            return True
        r = self.reachable((0,), unwind, avoid_edges=[(s, t)])
        return b not in r

    # ---- calls & statements --------------------------------------------
    def calls(self, live_only=True, unwind=False):
        live = self.live_blocks(unwind) if live_only else None
        for i, b in enumerate(self.blocks):
            if live is not None and i not in live:
                continue
            t = b["term"]
            if t["k"] == "call":
                yield i, t

    def call_sites(self, pred, unwind=False):
        return [(i, t) for i, t in self.calls(unwind=unwind) if pred(t["callee"])]

    def assigns(self, unwind=False):
        live = self.live_blocks(unwind)
        for i, b in enumerate(self.blocks):
            if i not in live:
                continue
            for j, s in enumerate(b["stmts"]):
                if s["k"] == "assign":
                    yield i, j, s

    def defs_of(self, local):
        """All definitions of a whole local: ('assign', bb, idx, rv) | ('call', bb, term) | ('arg',)"""
        if self._defs is None:
            d = defaultdict(list)
            for i, b in enumerate(self.blocks):
                for j, s in enumerate(b["stmts"]):
                    if s["k"] == "assign" and not s["place"]["p"]:
                        d[s["place"]["l"]].append(("assign", i, j, s["rv"]))
                t = b["term"]
                if t["k"] == "call" and not t["dest"]["p"]:
                    d[t["dest"]["l"]].append(("call", i, t))
                if t["k"] == "yield":
                    pass
            for a in range(1, self.argc + 1):
                d[a].append(("arg", a))
            # blocks duplicated by jump threading (analysis/inline.py) repeat definitions verbatim: a copy of a
            # definition is the same definition, not a second one (keep the live one; the original may have become
            # unreachable when every path was specialised)
            if any(b.get("threaded") for b in self.blocks):
                live = self.live_blocks()
                for l, ds in d.items():
                    if len(ds) < 2:
                        continue
                    groups = {}
                    order = []
                    for x in ds:
                        if x[0] == "arg":
                            sig = ("arg",)
                        elif x[0] == "assign":
                            sig = ("a", json.dumps(x[3], sort_keys=True))
                        else:
                            sig = ("c", json.dumps({"c": x[2]["callee"]["path"], "a": x[2]["args"]}, sort_keys=True))
                        if sig not in groups:
                            groups[sig] = []
                            order.append(sig)
                        groups[sig].append(x)
                    keep = []
                    for sig in order:
                        g = groups[sig]
                        if len(g) == 1 or not any(x[0] != "arg" and self.blocks[x[1]].get("threaded") for x in g):
                            keep.extend(g)
                            continue
                        g.sort(key=lambda x: (x[1] not in live, bool(self.blocks[x[1]].get("threaded"))))
                        keep.append(g[0])
                    d[l] = keep
            self._defs = d
        return self._defs.get(local, [])

    def local_ty(self, l):
        return self.locals[l]["ty"]

    def debug_name(self, l):
        for v in self.d.get("debug", []):
            p = v.get("place")
            if p and p["l"] == l and not p["p"]:
                return v["name"]
        return None

    def locals_named(self, name):
        out = []
        for v in self.d.get("debug", []):
            p = v.get("place")
            if v["name"] == name and p and not p["p"]:
                out.append(p["l"])
        return out

    def span_of(self, bb, idx=None):
        b = self.blocks[bb]
        if idx is not None and idx < len(b["stmts"]):
            return b["stmts"][idx].get("span", self.span)
        return b["term"].get("span", self.span)


def callee_matches(callee, *pats):
    """Match a resolved callee against patterns.  A pattern matches if it equals the resolved
    path, the declared path, or is a '::'-aligned suffix of either."""
    for pat in pats:
        for key in ("path", "decl"):
            v = callee.get(key) or ""
            if v == pat or v.endswith("::" + pat):
                return True
    return False


class Facts:
    def __init__(self, path):
        with open(path) as f:
            d = json.load(f)
        self.raw = d
        # functions the reference tree does not have are inlined at their call sites (analysis/inline.py)
        from . import inline, canon
        changed = canon.changed_functions(d) if os.environ.get("REPE_NO_CANON") != "1" else set()
        self.changed_functions = changed
        self.canon_report = canon.apply(d) if os.environ.get("REPE_NO_CANON") != "1" else {"fields": [], "args": [], "fns": []}
        self.inline_report = inline.apply(d) if os.environ.get("REPE_NO_INLINE") != "1" else {"new_functions": [], "inlined": [], "skipped": []}
        # functions that differ from the reference tree get one more normalisation: intra-procedural jump threading of
        # known Result/Option variants (error handling folded into one local that is tested later, etc.)
        self.threaded = {}
        if changed and os.environ.get("REPE_NO_INLINE") != "1":
            for p_ in sorted(changed):
                b_ = d["bodies"].get(p_)
                if b_ is not None and len(b_["blocks"]) < 3000:
                    n_ = inline.thread_known_variants(b_)
                    if n_:
                        self.threaded[p_] = n_
        self.features = d["features"]
        self.adts = d["adts"]
        self.impls = d["impls"]
        self.traits = d["traits"]
        self.consts = d["consts"]
        self.missing = d["missing_bodies"]
        self.bodies = {k: Body(k, v) for k, v in d["bodies"].items()}
        self._callers = None

    def body(self, path):
        b = self.bodies.get(path)
        if b is None:
            raise AnchorMissing("function %s not found in the analysed crate" % path)
        return b

    def has_body(self, path):
        return path in self.bodies

    def bodies_matching(self, pred):
        return [b for p, b in self.bodies.items() if pred(p)]

    def children(self, path):
        """closures / coroutine bodies nested (transitively) in `path`."""
        pre = path + "::{"
        return [b for p, b in self.bodies.items() if p.startswith(pre)]

    def family(self, path):
        return [self.body(path)] + self.children(path)

    def adt(self, path):
        a = self.adts.get(path)
        if a is None:
            raise AnchorMissing("type %s not found" % path)
        return a

    def adt_fields(self, path):
        a = self.adt(path)
        return [f["name"] for f in a["variants"][0]["fields"]]

    def require_field(self, adt, field):
        if field not in self.adt_fields(adt):
            raise AnchorMissing("field %s.%s not found" % (adt, field))

    def const_value(self, path):
        c = self.consts.get(path)
        if c is None or "v" not in c:
            raise AnchorMissing("constant %s not found / not evaluated" % path)
        return c["v"]

    def impls_of(self, trait):
        return [i for i in self.impls if i["trait"] == trait]

    def callers(self):
        """map resolved callee path -> list of (Body, bb, term) over live blocks of every body"""
        if self._callers is None:
            m = defaultdict(list)
            for b in self.bodies.values():
                for i, t in b.calls():
                    m[t["callee"]["path"]].append((b, i, t))
                    if t["callee"]["decl"] != t["callee"]["path"]:
                        m[t["callee"]["decl"]].append((b, i, t))
            self._callers = m
        return self._callers

    def calls_to(self, *pats):
        out = []
        for b in self.bodies.values():
            for i, t in b.calls():
                if callee_matches(t["callee"], *pats):
                    out.append((b, i, t))
        return out

    def fn_refs(self, *pats):
        """Sites where a fn item matching pats is mentioned as a value (not called)."""
        out = []
        for b in self.bodies.values():
            for i, j, s in b.assigns():
                for op in rv_operands(s["rv"]):
                    c = op.get("const")
                    if c and "fn" in c and callee_matches(c["fn"], *pats):
                        out.append((b, i, j))
            for i, t in b.calls():
                for op in t["args"]:
                    c = op.get("const")
                    if c and "fn" in c and callee_matches(c["fn"], *pats):
                        out.append((b, i, None))
        return out


def rv_operands(rv):
    if "use" in rv:
        return [rv["use"]]
    if "repeat" in rv:
        return [rv["repeat"]]
    if "cast" in rv:
        return [rv["cast"]]
    if "bin" in rv:
        return [rv["a"], rv["b"]]
    if "un" in rv:
        return [rv["a"]]
    if "agg" in rv:
        return list(rv["ops"])
    return []


def rv_places_read(rv):
    out = [op_place(o) for o in rv_operands(rv)]
    out = [p for p in out if p is not None]
    for k in ("ref", "rawptr", "discr"):
        if k in rv:
            out.append(rv[k])
    return out
