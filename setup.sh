#!/bin/bash
# Build the fact-dumping driver and warm the dependency artefacts (offline).
set -e
cd "$(dirname "$0")"
export CARGO_NET_OFFLINE=true
(cd driver && cargo build --offline 2>&1 | tail -3)
test -x driver/target/debug/repe-facts-driver
# warm: one fact build of the full-feature configuration (also validates the toolchain end to end)
python3 -c "
import sys; sys.path.insert(0,'.')
from analysis import build
p, info = build.build_facts()
print('facts', p, info)
"
echo "setup ok"
